CLAIMED = {
 "C18": {
  "text": "Decides the error-discipline clauses of C18 on every site: each of ~5000 Result-returning call sites in the IPC/Parquet/Avro/CSV/JSON crates is classified (propagated/handled/panicked/discarded) and no I/O error is discarded or unwrapped; every success exit of 18 finish/close/into_inner functions passes the flush/finalise event with its result kept, no sink write follows it, `finished` is set only after it; footer decoders compare the magic before any Ok; EOF maps to end-of-stream only behind an ErrorKind test. A fault-injection test samples call indices; this enumerates all call sites and all CFG paths.",
  "note": "Necessary conditions only: does not decide that bytes before a fault are a prefix of the fault-free output, nor value-level truncation handling. Trusts rustc MIR, the callee resolution of the driver, and the exemption tables in rules/c18.py (each entry has a reason).",
  "technique": "MIR Result-fate classification + must-pass-through on CFG (custom rustc driver)",
 },
}
NOT_APPLICABLE = {
 "C05": "round-trip equality over values x writer configs x thread orders; no structural clause with detection power (DESIGN.md §4)",
 "C06": "equality with post-filtering over selections/offsets/limits; skip arithmetic is value-level (DESIGN.md §4)",
 "C15": "quantifies over I/O and executor schedules; the only static fact is a shared core, no detection power (DESIGN.md §4)",
 "C17": "quoting/escaping/number formatting and cross-implementation agreement are value-level (DESIGN.md §4)",
 "C19": "bit arithmetic over every (offset,length,content); needs execution or a solver (DESIGN.md §4)",
 "C20": "matcher equivalence over pattern/string pairs; no necessary structural condition (DESIGN.md §4)",
}
CLAIMED["C12"] = {
  "text": "Decides the routing clauses of C12 on every site: all 12 integer-like impls of ArrowNativeTypeOp x 14 methods route checked ops to checked primitives (div/mod behind an is_zero test) and wrapping ops to wrapping primitives; every call of a *_wrapping primitive in arrow_arith is placed in its Op context by evaluating the `match op` dispatch per Op variant (closures traced to their creation point) and none is reachable for a checked Op or inside a fallible helper (exemptions listed, with their side conditions checked); all 7 invocations of a fallible user closure in the unary/binary kernels run under try_for_each_valid_idx or behind a null test. Found the decimal Rem pow_wrapping defect (fixed).",
  "note": "Necessary conditions only: exactness of i256/decimal arithmetic, precision/scale formulas, Kleene logic and lane handling are value-level and not decided. Trusts rustc MIR and the driver's callee resolution.",
  "technique": "MIR call inventory + dispatch-table evaluation per enum variant + control dependence (custom rustc driver)",
}
CLAIMED["C16"] = {
  "text": "Decides the structural clauses of C16 for all programs / all paths: shared-buffer types implement no mutable-view trait and 18 compile-fail witnesses (with compiling twins) show safe code cannot mutate or forge them; *const->*mut conversions occur only at 3 audited sites; Buffer->mutable conversions obtain the Bytes only through Arc::try_unwrap/get_mut with no back door; 7 in-place kernels reach only those conversions; for the 3 C-Data-Interface structs every Box/CString handed out by into_raw is reclaimed by the release callback, which clears `release`, and from_raw moves out with ptr::replace; every raw-pointer field of the FFI private data is reclaimed on release; the 10 unsafe Send/Sync impls are the audited ones with their where-clauses; no mem::forget strands an owning field and the shared pool counter is only updated with atomic read-modify-write operations (both analysed with feature `pool` on; found and fixed the into_vec reservation leak).",
  "note": "Does not decide thread interleavings nor logical equality of imported arrays. The pool/ffi configuration is analysed in addition to the baseline one. Trusts rustc (type checker, MIR) and the exemption tables in rules/c16.py.",
  "technique": "compile-fail witnesses + impl/ADT facts + MIR pairing and field-taken-before-forget analysis",
}
CLAIMED["C09"] = {
  "text": "Decides structural clauses of C09 exhaustively over the DataType enum as defined in the source: for each of the 41 constructors the `match self.data_type` dispatch of ArrayData::validate/validate_child_data/validate_nulls/validate_values is evaluated and every obligation the Arrow format assigns to that layout must be discharged by a reachable validator instantiated at the right offset/key/run-end type (found and fixed the missing Union validation); in 20 checked constructors each of 46 stored operands that is validated on the reference tree must still flow into a branch on which a rejecting exit is control dependent, and the number of validations every successful path must pass does not drop below the reference; try_new/build/validate_data/validate_full chain to each other on every Ok path and recurse into children; len+offset goes through the overflow-checked helper; every unchecked/FFI entry point (84) is `unsafe fn`; representations are private (26 types) and 18 compile-fail witnesses hold.",
  "note": "Does not decide the arithmetic inside each validator (e.g. < vs <=) nor partial weakening of a check that still depends on the operand. The checked-operand reference table (rules/tables/c09_checked_operands.json) was generated from the reference tree and reviewed. Trusts rustc MIR.",
  "technique": "dispatch-table evaluation per enum constructor + taint-to-rejecting-branch on MIR + API facts + compile-fail witnesses",
}
CLAIMED["C10"] = {
  "text": "Decides two clauses of C10 over all sites / all DataType constructors: in arrow_ord, arrow_cmp, arrow_row and the aggregates no float-capable native value (f16/f32/f64, T::Native) is compared through PartialOrd/PartialEq or a primitive float comparison - every comparison goes through ArrowNativeTypeOp (whose float impls are checked to be total_cmp / to_bits), so the components cannot disagree on NaN and signed zero; and for each of the 41 DataType constructors the support predicates agree with the dispatch tables (can_rank <=> rank, can_sort_to_indices => sort_to_indices, sortable/rankable => make_comparator has an arm), evaluated three-valued on the MIR of the predicates and dispatchers.",
  "note": "Does not decide that sort permutations, ranks and partition boundaries are right, nor null-ordering flags. Trusts rustc MIR and the driver's callee resolution.",
  "technique": "type-resolved call inventory + three-valued evaluation of dispatch tables per enum constructor",
}
CLAIMED["C13"] = {
  "text": "Decides the first clause of C13 on the full grid: both giant `match (from, to)` tables are evaluated for all ordered pairs of the 41 DataType constructors refined by TimeUnit/IntervalUnit (55 types, ~2800 pairs; helper predicates evaluated on their own bodies, other payload guards unknown); every pair for which can_cast_types is definitely true (898 today) reaches an implementation arm of cast_with_options rather than the unsupported-error arm. The suite samples a fixed list of arrays; this is the whole matrix - the refinement found two genuine disagreements (Interval->Int64, invalid Time32/Time64 units), both fixed.",
  "note": "Only the support inclusion: value preservation, strict/safe duality, text and datatype-display round trips are value-level and not decided; pairs whose castability depends on payloads (nested/dictionary children) are reported as unknown, not judged.",
  "technique": "three-valued evaluation of two dispatch tables over the constructor grid (MIR, custom rustc driver)",
}
CLAIMED["C04"] = {
  "text": "Decides table-agreement and bookkeeping clauses of C04: for each of the 41 DataType constructors the IPC array reader (create_array) and the projection skipper (skip_field) are evaluated on the same dispatch and must consume the same abstract number of field nodes, buffers and child recursions (constant-range loops multiplied out) - a one-buffer disagreement shifts every later column and only shows with projections over mixed schemas; every path of DictionaryTracker::insert/insert_column that tells the writer to (re)send a dictionary has recorded it in `written`; the dictionary reader consults isDelta.",
  "note": "Does not decide byte-level round-trip equality, slicing/truncation arithmetic, compression or Flight splitting. Counts are abstract (static call sites; non-constant loops are 'variadic' on both sides).",
  "technique": "dispatch-table evaluation with abstract call counting (sibling agreement) + must-pass-through on MIR",
}
CLAIMED["C07"] = {
  "text": "Decides structural clauses of C07 on every path of the two sibling value encoders and the column writer: bloom-filter insertion exists in both encoders and is control dependent on the bloom_filter field only (never on a statistics setting), both update min/max; a truncated maximum is always produced by increment (never a bare prefix) and a truncated minimum never incremented; the exact-flags derive from the matching truncation; fixed-length (Decimal/Float16) bounds are truncated only behind can_truncate_value() in statistics and page index; NaN is tested before any min/max comparison.",
  "note": "Does not decide comparison correctness per sort order, increment carry logic, Sbbf hashing, row/null counts. Trusts rustc MIR.",
  "technique": "control-dependence and must-pass-through on MIR, field-effect sets, sibling agreement",
}
CLAIMED["C14"] = {
  "text": "Decides necessary conditions of chunk independence on the decoder state machines: the emitting method of each push decoder re-initialises every accumulation field (8 reset methods, field sets computed from MIR writes incl. &mut borrows); zero-copy fast paths of the IPC stream decoder are control dependent on the internal buffer being empty; after every completed IPC message the next state is stored before Ok can be returned; the CSV header-validation flag is cleared only after validation succeeded; finish/flush of CSV, JSON and IPC reject on the partial-record state; the resumable Avro varint decoder writes its carried state fields together and completes a value only after reading them.",
  "note": "Chunk independence itself is a relation over all chunkings and is not decided; only state-reset / guard / ordering conditions whose violation makes the outcome depend on where a chunk boundary falls.",
  "technique": "field-effect analysis (EFF) + control dependence + must-pass-through on MIR",
}
CLAIMED["C08"] = {
  "text": "Decides structural clauses of C08 over all call sites of the decoders: every unchecked construction in the IPC array decoder is control dependent on (or parameterised by) UnsafeFlag::get(), and the skip-validation switches are `unsafe fn`; across all decoders of untrusted input (IPC, Flight, Parquet, JSON, Avro, CSV, Variant) unsafe unchecked constructors are called only from 27 audited (function, constructor) pairs; no size decoded from the wire reaches an allocation without min()/a bounded helper/a preceding validating call (found and fixed the thrift list preallocation and the IPC footer allocation; the Parquet page-header allocation is a recorded finding with a 25-byte demo); the CSV decoder checks field boundaries (found and fixed); Variant try_new constructors return Ok only through full validation; Parquet string decoders whose UTF-8 validation is keyed on the file's annotation instead of the Arrow type being built are reported (3 recorded findings with a demo).",
  "note": "Does not decide absence of slice-index panics or unbounded loops in general, nor the arithmetic of the validators named in the inventory. The inventory table carries one reason per entry and is the reference for later changes.",
  "technique": "control dependence + backward slices from allocation sites to wire-integer sources + audited call inventory (MIR, custom rustc driver)",
}
CLAIMED["C11"] = {
  "text": "Decides structural clauses of C11: every DataType constructor RowConverter::supports_datatype definitely accepts (31) is routed to an implementation in all four row-format tables (Codec::new, row_lengths, encode_column, decode_column); a RowConfig with validate_utf8 = false is built only in unsafe fns or the audited converter-internal site, Rows::push and convert_rows propagate the flag, decode_string/decode_string_view validate when it is set; convert_rows and Rows::push assert that rows come from this converter before the unsafe decode.",
  "note": "Order preservation, injectivity and inversion of the encoding are value-level and not decided.",
  "technique": "three-valued dispatch-table evaluation per enum constructor + field/flag dataflow on MIR",
}
CLAIMED["C01"] = {
  "text": "Decides the structural preconditions of C01 on every site: safe code cannot forge or bypass validation (84 unchecked/FFI entry points are `unsafe fn`, 26 representations private, 18 compile-fail witnesses); ArrayData validation discharges every layout obligation for all 41 DataType constructors and the 20 checked constructors keep validating each stored operand; decoders construct unchecked only behind the unsafe flag / from audited sites; ArrayData::ptr_eq compares every field of both operands; RecordBatch writes schema and columns together; sibling arms of kernel dispatches agree on slicing parameters and (buffer, offset) pairs come from one object.",
  "note": "The universal clause - every kernel computes right offsets, null counts and keys - is value-level and not decided; these are the necessary conditions visible in the shape of the code. Shares rule engines and tables with C09/C08/C03.",
  "technique": "API facts + compile-fail witnesses + dispatch-table evaluation + taint-to-rejecting-branch + field-effect sets (MIR, custom rustc driver)",
}
CLAIMED["C02"] = {
  "text": "Decides structural clauses of C02: equal_values routes all 41 DataType constructors and equality compares null masks before values; every arm of the equality/comparison dispatches uses the slicing parameters its siblings use (reference table of 8 variables, identified by parameter position / producing call); (buffer, bit-offset) argument pairs always come from the same object (18 sites) - a mismatched pair is right for unsliced inputs only; array types with out-of-band nulls override logical_nulls/is_nullable; fallible element closures run on valid slots only.",
  "note": "Congruence of kernels under re-slicing/padding and commutation with row selection are relations between two executions and are not decided.",
  "technique": "sibling-arm agreement and argument-pair provenance on MIR + dispatch-table evaluation + control dependence",
}
CLAIMED["C03"] = {
  "text": "Decides routing totality and sibling agreement for the selection kernels: filter, take, concat, interleave, the MutableArrayData extend tables, make_array, layout and new_buffers are evaluated for every DataType constructor (369 type x table instances) and none falls into a diverging arm except the three enumerated constructors routed elsewhere; every arm of the strategy/type dispatches uses the slicing parameters its siblings use ('one arm forgot + offset').",
  "note": "That exactly the selected rows are moved, in order, and the coalescer's batch sizes are value/history-level and not decided.",
  "technique": "dispatch-table evaluation per enum constructor + sibling-arm agreement on MIR",
}

# ---- rules added after rounds 2/3 of seeding (appended so the per-property texts above stay as reviewed)
_ADD = {
 "C01": " Also: the C09 ratchets (deciding inputs of 42 validators; enabling-condition profile of 41), sink-level arm agreement, and belief consistency of all 25 comparisons against MAX_INLINE_VIEW_LEN.",
 "C02": " Also: per-output arm agreement (sink-uniform, 14 instances) and child-window-from-offsets (a window into the shared child of a List/Map/ListView/RunEndEncoded parent starts at a computed position, never a constant; 9 sites).",
 "C03": " Also: sink-uniform on the MutableArrayData dispatches and inline-view-threshold (18 comparison sites agree that a 12-byte view is inline).",
 "C04": " Also: non-interference of the body codec (the codec given to write_array_data depends on the write options only, as the header's BodyCompression entry does) and sink-uniform on write_array_data.",
 "C08": " Also: rejections-kept (census of the explicit rejecting checks in the decoder functions of the anchored files -- `?` propagation is not counted; a function that lost one while its crate's total dropped is reported) and validator-inputs-checked on the ArrayData validators.",
 "C09": " Also two ratchets over 42 validators/constructors: every (type, field-path) input that decided a rejecting branch still does (range.start, max_value, offset_limit, ...), and no existing rejecting decision has been put behind an additional enabling condition (fast path, early continue).",
 "C11": " Also: sink-uniform (both LengthTracker arms let initial_offset reach the pushed offsets and the returned total).",
 "C12": " Also: the Kleene validity/value closures are decided exactly by their 16-row truth tables (computed from MIR over a finite abstract domain), and try_for_each_valid_idx receives the offset of the NullBuffer whose bitmap it is given.",
 "C13": " Also: Utf8 and Utf8View entry points of each text cast delegate to the same generic implementations with the same type arguments (7 pairs), and the 26 DecimalCast conversions contain no narrowing `as`.",
}
_ADD2 = {
 "C01": " builder-finish-resets: finish(&mut self) of 17 array builders writes every field the append methods write (or takes the whole builder).",
 "C02": " null-test-relative-to-start: the 15 validity tests in the range comparators of arrow_data::equal are made at start + i or on a null buffer sliced by start.",
 "C11": " descending-reaches-child-bytes (List/Map/RunEndEncoded/Union encoders let the column's SortOptions reach every write of child bytes, 11 sites) and union-type-id-translated (a type id indexes only the 128-entry translation table).",
 "C13": " decimal-bound-beliefs (12 comparisons against the per-precision MIN/MAX tables agree that the bound is representable, strict and safe mode) and narrowing-after-reduction (15 narrowing `as` casts in arrow-cast act on reduced values, never on raw kernel inputs).",
 "C14": " tolerated-error-is-atomic: where a decoder turns a callee's error into 'need more input' the callee is failure-atomic or rolled back (one recorded finding: Avro single-object decoder).",
}
_ADD3 = {
 "C02": " layout-sibling-agreement (equal_values routes both members of each same-layout type pair alike), ree-coordinates (slice-relative run ends are never combined with the absolute offset).",
 "C03": " layout-sibling-agreement (24 instances over MutableArrayData, filter, take, concat, interleave), view-rebase-guarded (8 sites that rebase ByteView::buffer_index test the inline threshold first).",
 "C04": " layout-sibling-agreement (25 instances over the IPC writer, reader and projection skipper).",
 "C07": " null-page-counts-values (the column index's null_page flag compares the null count with the number of values, not rows).",
 "C08": " run-validated-utf8-checks-value-boundaries (6 Parquet byte-array decoders), pull-loop-progress (Avro container reader), footer-block-fields-checked (IPC file reader), slice-len-minus-const-guarded (4 sites), variant-dictionary-offsets-on-boundaries and variant-full-validation-recurses (Variant containers).",
 "C11": " rows-buffer-ends-at-last-offset (from_binary) and raw-validity-needs-offset (get_bit on a NullBuffer's raw bytes uses its bit offset).",
 "C12": " ree-coordinates (slice-relative run ends are never combined with the absolute offset).",
}
_ALL = " relation-kept: ratchet against a comparison between the same two named quantities that starts splitting {<, ==, >} differently (>= turned into >). accumulator-reset-kept / accumulation-kept / mustpass-kept: ratchets against a reset hoisted out of a loop, `|=` turned into `=`, and a new successful exit that bypasses the function's must-pass callees. influence-kept: for every named intermediate value of every function in the crates this property is anchored in, each parameter (with field path) that could influence it on the reference tree still can, while function, variable and parameter exist (ratchet against dropped operands). precondition-kept: every condition edge (comparison of named quantities / boolean call on a named receiver, with its outcome) that dominated all call sites of a callee in a function on the reference tree still dominates them (ratchet against a fast-path precondition weakened from `a && b` to `a || b`, a dropped guard, a call hoisted out of its guard)."
for _k, _v in _ADD.items():
    CLAIMED[_k]["text"] = CLAIMED[_k]["text"].rstrip() + _v
for _k, _v in _ADD2.items():
    CLAIMED[_k]["text"] = CLAIMED[_k]["text"].rstrip() + _v
for _k, _v in _ADD3.items():
    CLAIMED[_k]["text"] = CLAIMED[_k]["text"].rstrip() + _v
for _k in CLAIMED:
    CLAIMED[_k]["text"] = CLAIMED[_k]["text"].rstrip() + _ALL
