CLAIMED = {
 "C18": {
  "text": "Decides the error-discipline clauses of C18 on every site: each of ~5000 Result-returning call sites in the IPC/Parquet/Avro/CSV/JSON crates is classified (propagated/handled/panicked/discarded) and no I/O error is discarded or unwrapped; every success exit of 18 finish/close/into_inner functions passes the flush/finalise event with its result kept, no sink write follows it, `finished` is set only after it; footer decoders compare the magic before any Ok; EOF maps to end-of-stream only behind an ErrorKind test. A fault-injection test samples call indices; this enumerates all call sites and all CFG paths.",
  "note": "Necessary conditions only: does not decide that bytes before a fault are a prefix of the fault-free output, nor value-level truncation handling. Trusts rustc MIR, the callee resolution of the driver, and the exemption tables in rules/c18.py (each entry has a reason).",
  "technique": "MIR Result-fate classification + must-pass-through on CFG (custom rustc driver)",
 },
}
NOT_APPLICABLE = {
 "C05": "round-trip equality over values x writer configs x thread orders; no structural clause with detection power (DESIGN.md §4)",
 "C06": "equality with post-filtering over selections/offsets/limits; skip arithmetic is value-level (DESIGN.md §4)",
 "C15": "quantifies over I/O and executor schedules; the only static fact is a shared core, no detection power (DESIGN.md §4)",
 "C17": "quoting/escaping/number formatting and cross-implementation agreement are value-level (DESIGN.md §4)",
 "C19": "bit arithmetic over every (offset,length,content); needs execution or a solver (DESIGN.md §4)",
 "C20": "matcher equivalence over pattern/string pairs; no necessary structural condition (DESIGN.md §4)",
}
