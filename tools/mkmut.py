#!/usr/bin/env python3
"""mkmut.py <name> <property> <expected-key-substring> <file> <<< "OLD\n====\nNEW"  -> mutants/<name>.patch (+ .json)"""
import sys, subprocess, json, os
name, prop, expect, path = sys.argv[1:5]
old, new = sys.stdin.read().split("\n====\n")
new = new.rstrip("\n")
old = old.rstrip("\n")
full = os.path.join("/repo", path)
s = open(full).read()
assert s.count(old) == 1, "old text occurs %d times" % s.count(old)
open(full, "w").write(s.replace(old, new))
diff = subprocess.check_output(["git", "-C", "/repo", "diff"], text=True)
subprocess.check_call(["git", "-C", "/repo", "checkout", "--", "."])
out = "/verif/mutants/%s.patch" % name
open(out, "w").write(diff)
json.dump({"property": prop, "expect_key": expect, "file": path}, open("/verif/mutants/%s.json" % name, "w"))
print("wrote", out, len(diff.splitlines()), "lines")
