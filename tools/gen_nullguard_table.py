#!/usr/bin/env python3
"""Regenerates rules/tables/null_guarded.json from the current tree (review the diff before committing)."""
import sys, os, json
sys.path.insert(0, os.path.dirname(os.path.dirname(os.path.abspath(__file__))))
from rules import facts, nullguard
F = facts.Facts("ws")
rows = nullguard.infer(F, ["arrow_select", "arrow_ord", "arrow_arith", "arrow_cast", "arrow_string", "arrow_row", "arrow_array", "arrow_data"])
json.dump(rows, open(os.path.join(os.path.dirname(os.path.dirname(os.path.abspath(__file__))), "rules", "tables", "null_guarded.json"), "w"), indent=1)
for r in rows:
    print(r)
print(len(rows))
