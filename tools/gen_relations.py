#!/usr/bin/env python3
"""Regenerates rules/tables/relations.json from the current tree (review the diff before committing)."""
import sys, os, json, re
sys.path.insert(0, os.path.dirname(os.path.dirname(os.path.abspath(__file__))))
from rules import facts, relations, influence
F = facts.Facts("ws")
t = relations.build_table(F, ["arrow_ord", "arrow_select", "arrow_arith", "arrow_cast", "arrow_row", "arrow_data", "arrow_array", "arrow_buffer", "arrow_string",
                              "arrow_ipc", "arrow_csv", "arrow_json", "arrow_avro", "parquet", "parquet_variant"])
json.dump(t, open(relations.TABLE, "w"), indent=0, sort_keys=True)
print(len(t), "functions", sum(len(v) for v in t.values()), "compared pairs")
floors = {}
for p, (pre, _) in influence.SCOPE.items():
    n = sum(len(v) for f, v in t.items() if any(f.lstrip("<").startswith(x) for x in pre))
    floors[p] = int(n * 0.8)
src = open(relations.__file__).read()
src = re.sub(r"\nFLOORS = \{[^}]*\}\n", "\nFLOORS = %r\n" % floors, src)
open(relations.__file__, "w").write(src)
print(floors)
