#!/usr/bin/env python3
"""matrix.py: run every seeded change and hand-written mutant against the checks of the properties it is
mapped to (static analysis of the variant tree in /tmp/seedrepo), then write seeded/RESULTS.md and
selftest.json (the changes each property's thorough tier must keep catching)."""
import glob, json, os, re, subprocess, sys
V = os.path.dirname(os.path.dirname(os.path.abspath(__file__)))
EXTRA = {"C01-3": ["C11"], "C04-3": ["C14"], "C12-3": ["C02"], "C09-3": ["C01"], "C02-2": ["C03"], "C02-3": ["C12"], "C09-2": ["C01"], "C01-1": [], "C03-3": [],
         "C08-2": ["C01"], "C16-3": ["C02"], "C04-4": ["C14"], "C09-4": ["C08", "C01"], "C08-4": ["C09"], "C12-5": ["C02"], "C02-5": ["C03"], "C09-1": ["C08"],
         "C09-5": ["C01"], "C09-6": ["C08"], "C03-5": ["C01"], "C08-3": [], "C18-5": ["C14"], "C01-4": ["C11"], "C11-6": ["C01"],
         "C03-9": ["C01"], "C02-9": ["C01"], "C02-7": ["C10"], "C10-7": ["C02"], "C02-8": ["C03", "C01"], "C10-9": ["C02"], "C09-7": ["C16", "C01"], "C09-8": ["C08", "C01"],
         "C09-9": ["C01"], "C12-9": ["C02"], "C16-8": ["C04"], "C18-7": ["C14"], "C13-9": ["C02"], "C13-8": ["C12"],
         "C01-9": ["C08"], "C02-10": ["C01", "C03"], "C02-11": ["C03"], "C02-12": ["C10"], "C03-11": ["C01"], "C03-12": ["C01"], "C09-10": ["C08", "C01"],
         "C09-11": ["C01"], "C09-12": ["C16", "C01"], "C08-10": ["C01"], "C08-11": ["C01"], "C04-10": ["C02"], "C04-12": ["C18"], "C16-11": ["C18"], "C14-10": ["C08"], "C14-11": ["C08"]}
items = []
for d in sorted(glob.glob(os.path.join(V, "seeded", "C*-*"))):
    n = os.path.basename(d)
    props = [n.split("-")[0]] + EXTRA.get(n, [])
    items.append("seeded/%s@%s" % (n, ",".join(props)))
for p in sorted(glob.glob(os.path.join(V, "mutants", "*.patch"))):
    items.append("mutants/" + os.path.basename(p))
only = sys.argv[1:]
if only:
    items = [i for i in items if any(o in i for o in only)]
STORE = os.path.join(V, "seeded", "matrix.json")
store = json.load(open(STORE)) if os.path.exists(STORE) else {}
out = subprocess.run([sys.executable, os.path.join(V, "tools", "prun.py"), "--jobs", os.environ.get("MATRIX_JOBS", "4")] + items, cwd=V, capture_output=True, text=True).stdout
open("/tmp/matrix.log", "w").write(out)
fresh = {}
for line in out.splitlines():
    m = re.match(r"^(\S+)\s+(C\d+)\s+(caught-other|caught|MISSED|ERROR|APPLY-FAILED)\s+\d+s\s*(.*)$", line)
    if m:
        name, prop, verdict, keys = m.groups()
        fresh.setdefault(name, {})[prop] = [verdict, keys]
for name, per in fresh.items():       # a re-run item replaces its old row entirely
    store[name] = per
json.dump(store, open(STORE, "w"), indent=1, sort_keys=True)
res = {name: [(prop, v[0], v[1]) for prop, v in sorted(per.items())] for name, per in store.items()}
lines = ["# Detection matrix", "", "Static checks run against each change applied to a scratch worktree (`tools/seedtest.py`).",
         "`caught` = the check of that property exits 1 on the variant tree and names the broken instance.", "",
         "| change | written by | property check | verdict | reporting rule instance(s) |", "|---|---|---|---|---|"]
selftest = []
for name in sorted(res):
    who = "sub-agent (saw only the property text)" if name.startswith("C") else "hand-written mutant"
    for prop, verdict, keys in res[name]:
        rules = "; ".join(sorted(set(re.findall(r"\[(C\d+\.[\w-]+)\]", keys))))
        lines.append("| %s | %s | %s | %s | %s |" % (name, who, prop, verdict, rules))
        if verdict == "caught":
            patch = ("seeded/%s/patch.diff" % name) if name.startswith("C") and "-" in name and not name.endswith(".patch") else ("mutants/" + name)
            first = re.findall(r"\[(C\d+\.[\w-]+)\]", keys)
            selftest.append({"property": prop, "patch": patch, "expect": first[0] if first else ""})
caught = sum(1 for n in res if n.startswith("C") and not n.endswith(".patch") and any(v == "caught" for _, v, _ in res[n]))
total = sum(1 for n in res if n.startswith("C") and not n.endswith(".patch"))
lines += ["", "Sub-agent changes caught by at least one check: %d of %d. The misses are value-level changes (an off-by-one, a wrong comparison operator, a wrong constant) "
          "inside code whose structure is unchanged; they are outside the clauses this technique decides (DESIGN.md section 0)." % (caught, total)]
open(os.path.join(V, "seeded", "RESULTS.md"), "w").write("\n".join(lines) + "\n")
json.dump(selftest, open(os.path.join(V, "selftest.json"), "w"), indent=1)
print("\n".join(lines[-3:]))
