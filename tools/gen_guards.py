#!/usr/bin/env python3
"""Regenerates rules/tables/guards.json from the current tree (review the diff before committing)."""
import sys, os, json, re
sys.path.insert(0, os.path.dirname(os.path.dirname(os.path.abspath(__file__))))
from rules import facts, guards, influence
F = facts.Facts("ws")
t = guards.build_table(F, ["arrow_ord", "arrow_cmp", "arrow_select", "arrow_arith", "arrow_cast", "arrow_row", "arrow_data", "arrow_array", "arrow_buffer", "arrow_string",
                           "arrow_ipc", "arrow_csv", "arrow_json", "arrow_avro", "parquet", "parquet_variant"])
json.dump(t, open(guards.TABLE, "w"), indent=0, sort_keys=True)
print(len(t), "functions", sum(len(v) for v in t.values()), "guarded callees")
floors = {}
for p in influence.SCOPE:
    pre = guards.scope(p)
    n = sum(len(v) for f, v in t.items() if any(f.lstrip("<").startswith(x) for x in pre))
    floors[p] = int(n * 0.8)
src = open(guards.__file__).read()
src = re.sub(r"\nFLOORS = \{[^}]*\}\n", "\nFLOORS = %r\n" % floors, src)
open(guards.__file__, "w").write(src)
print(floors)
