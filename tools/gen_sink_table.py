#!/usr/bin/env python3
"""Regenerates rules/tables/sink_uniform.json from the current tree (review the diff before committing)."""
import sys, os, json
sys.path.insert(0, os.path.dirname(os.path.dirname(os.path.abspath(__file__))))
from rules import facts, arms
F = facts.Facts("ws")
rows = arms.infer_sinks(F, ["arrow_select", "arrow_data", "arrow_arith", "arrow_buffer", "arrow_ord", "arrow_string", "arrow_cast", "arrow_row", "arrow_array", "arrow_ipc"])
json.dump(rows, open(os.path.join(os.path.dirname(os.path.dirname(os.path.abspath(__file__))), "rules", "tables", "sink_uniform.json"), "w"), indent=1)
for o in rows:
    print(o)
print(len(rows))
