#!/bin/bash
# every behaviour-preserving patch must leave every check silent (run against /tmp/seedrepo)
cd "$(dirname "$0")/.."
for p in mutants/benign/*.patch; do
  python3 tools/seedtest.py --props C01,C02,C03,C04,C07,C08,C09,C10,C11,C12,C13,C14,C16,C18 "$p"
done
