#!/bin/bash
# every behaviour-preserving patch must leave every check silent (static checks run on scratch worktrees, in parallel)
cd "$(dirname "$0")/.."
python3 tools/prun.py --jobs ${JOBS:-4} --props C01,C02,C03,C04,C07,C08,C09,C10,C11,C12,C13,C14,C16,C18 mutants/benign/*.patch
