#!/usr/bin/env python3
"""Regenerates rules/tables/accumulating.json from the current tree (review the diff before committing)."""
import sys, os, json
sys.path.insert(0, os.path.dirname(os.path.dirname(os.path.abspath(__file__))))
from rules import facts, accum
F = facts.Facts("ws")
t = accum.build_table2(F, ["arrow_ord", "arrow_select", "arrow_arith", "arrow_cast", "arrow_row", "arrow_data", "arrow_array", "arrow_buffer", "arrow_string",
                           "arrow_ipc", "arrow_csv", "arrow_json", "arrow_avro", "parquet", "parquet_variant"])
json.dump(t, open(accum.TABLE2, "w"), indent=0, sort_keys=True)
print(len(t), "functions", sum(len(v) for v in t.values()), "accumulating variables")
