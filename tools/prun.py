#!/usr/bin/env python3
"""prun.py [--jobs N] [--props P1,P2,..] item... : run tools/seedtest.py over the items on N scratch worktrees in parallel
(/tmp/seedrepo, /tmp/seedrepo1, ...; each detached at /repo's HEAD, each with its own facts cache).  Prints seedtest's lines."""
import sys, subprocess, os, threading, queue
V = os.path.dirname(os.path.dirname(os.path.abspath(__file__)))
args = sys.argv[1:]
jobs, props = 4, None
while args and args[0].startswith("--"):
    if args[0] == "--jobs":
        jobs = int(args[1]); args = args[2:]
    elif args[0] == "--props":
        props = args[1]; args = args[2:]
head = subprocess.check_output(["git", "-C", "/repo", "rev-parse", "HEAD"], text=True).strip()
repos = []
for i in range(jobs):
    r = os.environ.get("PRUN_BASE", "/tmp/seedrepo") + ("" if i == 0 else str(i))
    if not os.path.exists(r):
        subprocess.check_call(["git", "-C", "/repo", "worktree", "add", "-q", "--detach", r, head])
    subprocess.check_call(["git", "-C", r, "checkout", "-q", "--", "."])
    subprocess.check_call(["git", "-C", r, "checkout", "-q", "--detach", head])
    repos.append(r)
q = queue.Queue()
for it in args:
    q.put(it)
lock = threading.Lock()


def worker(repo):
    while True:
        try:
            it = q.get_nowait()
        except queue.Empty:
            return
        cmd = [sys.executable, os.path.join(V, "tools", "seedtest.py"), "--repo", repo] + (["--props", props] if props else []) + [it]
        out = subprocess.run(cmd, cwd=V, capture_output=True, text=True)
        with lock:
            sys.stdout.write(out.stdout)
            if out.returncode != 0:
                sys.stdout.write("%-28s ?    ERROR           0s %s\n" % (os.path.basename(it.split("@")[0]), (out.stderr or "")[-300:].replace("\n", " ")))
            sys.stdout.flush()


ts = [threading.Thread(target=worker, args=(r,)) for r in repos]
for t in ts:
    t.start()
for t in ts:
    t.join()
