#!/usr/bin/env python3
"""Regenerates rules/tables/arm_uniform.json from the current tree (review the diff before committing)."""
import sys, os, json
sys.path.insert(0, os.path.dirname(os.path.dirname(os.path.abspath(__file__))))
from rules import facts, arms
F = facts.Facts("ws")
rows = arms.infer(F, ["arrow_select", "arrow_data", "arrow_arith", "arrow_buffer", "arrow_ord", "arrow_string", "arrow_cast", "arrow_row", "arrow_array", "arrow_ipc"])
out = [{"fn": r[0], "enum": r[1], "var": r[2], "name": r[3], "arms": r[4]} for r in rows]
json.dump(out, open(os.path.join(os.path.dirname(os.path.dirname(os.path.abspath(__file__))), "rules", "tables", "arm_uniform.json"), "w"), indent=1)
for o in out:
    print(o)
