#!/usr/bin/env python3
"""Regenerates rules/tables/known_functions.json: the functions that exist on the reference tree (a caller of a function outside this list was refactored by extraction)."""
import sys, os, json
sys.path.insert(0, os.path.dirname(os.path.dirname(os.path.abspath(__file__))))
from rules import facts, flow
F = facts.Facts("ws")
out = set()
for name in F.info["files"]:
    if name.startswith(("arrow_", "parquet")):
        for fn in F.crate(name).fns:
            if fn["kind"] != "Closure":
                out.add(flow.norm(fn["id"]))
json.dump(sorted(out), open(os.path.join(os.path.dirname(os.path.dirname(os.path.abspath(__file__))), "rules", "tables", "known_functions.json"), "w"), indent=0)
print(len(out), "functions")
