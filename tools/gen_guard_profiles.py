#!/usr/bin/env python3
"""Regenerates rules/tables/c09_guard_profiles.json from the current tree (review the diff before committing)."""
import sys, os, json
sys.path.insert(0, os.path.dirname(os.path.dirname(os.path.abspath(__file__))))
from rules import facts, c09
F = facts.Facts("ws")
t = c09.guard_profile_table(F)
json.dump(t, open(os.path.join(os.path.dirname(os.path.dirname(os.path.abspath(__file__))), "rules", "tables", "c09_guard_profiles.json"), "w"), indent=0, sort_keys=True)
print(len(t), "units")
