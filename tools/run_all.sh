#!/bin/sh
# Runs every claimed property's quick check on /repo (rewrites evidence/*.json) and validates MANIFEST + evidence.
cd "$(dirname "$0")/.."
rc=0
for p in $(python3 -c "import json;print(' '.join(c['property_id'] for c in json.load(open('MANIFEST.json'))['checks']))"); do
  ./check $p --tier ${1:-quick} > /tmp/run_all_$p.log 2>&1; r=$?
  echo "$p exit=$r $(grep -c '^VIOLATION' /tmp/run_all_$p.log) violations, $(grep -c '^KNOWN-FINDING' /tmp/run_all_$p.log) known; $(tail -n 40 /tmp/run_all_$p.log | grep -E '^C[0-9]+:' )"
  [ $r -ne 0 ] && rc=1
done
python3-vt - <<'PY'
import json, jsonschema, glob
jsonschema.validate(json.load(open('MANIFEST.json')), json.load(open('/root/.vp/MANIFEST.schema.json')))
for c in json.load(open('MANIFEST.json'))['checks']:
    jsonschema.validate(json.load(open(c['evidence_file'])), json.load(open('/root/.vp/EVIDENCE.schema.json')))
print('MANIFEST and evidence validate')
PY
exit $rc
