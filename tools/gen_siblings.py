#!/usr/bin/env python3
"""Regenerates rules/tables/layout_siblings.json from the current tree (review the diff before committing)."""
import sys, os, json
sys.path.insert(0, os.path.dirname(os.path.dirname(os.path.abspath(__file__))))
from rules import facts, siblings
F = facts.Facts("ws")
t = siblings.build_table(F)
json.dump(t, open(siblings.TABLE, "w"), indent=1, sort_keys=True)
for pid, rows in t.items():
    print(pid, len(rows))
for pid in siblings.DISPATCHES:
    for fid, pair, diff, resolved in siblings.evaluate(F, pid):
        if pair and (diff or not resolved):
            print("  not armed:", fid, pair, "unresolved" if not resolved else diff[:4])
