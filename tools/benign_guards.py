#!/usr/bin/env python3
"""benign_guards.py <repo> patch... : apply each behaviour-preserving patch to the scratch worktree <repo>, re-extract facts and run only the
PRECONDITION RATCHET (rules/guards.py) over the scopes of all claimed properties; prints ALARM lines for any violation."""
import sys, os, subprocess, time
sys.path.insert(0, os.path.dirname(os.path.dirname(os.path.abspath(__file__))))
from rules import facts, guards, influence
repo = sys.argv[1]
facts.REPO = repo


class CK:
    def __init__(self):
        self.bads = []
    def rule(self, *a, **k): pass
    def ok(self, *a, **k): pass
    def bad(self, rule, key, msg, loc=None):
        self.bads.append(key)


for patch in sys.argv[2:]:
    t = time.time()
    r = subprocess.run(["git", "-C", repo, "apply", os.path.abspath(patch)], capture_output=True, text=True)
    if r.returncode != 0:
        print("%-60s APPLY-FAILED" % os.path.basename(patch), flush=True)
        continue
    try:
        F = facts.Facts("ws")
        ck = CK()
        seen = set()
        for pid in influence.SCOPE:
            guards.check(ck, F, "%s.precondition-kept" % pid, guards.scope(pid), 0)
        bads = sorted(set(ck.bads))
        print("%-60s %s %4.0fs %s" % (os.path.basename(patch), "ALARM" if bads else "silent", time.time() - t, "; ".join(bads)[:600]), flush=True)
    except Exception as e:
        print("%-60s ERROR %s" % (os.path.basename(patch), str(e)[:300]), flush=True)
    finally:
        subprocess.check_call(["git", "-C", repo, "checkout", "--", "."])
