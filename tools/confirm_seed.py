#!/usr/bin/env python3
"""confirm_seed.py <seeded/Cxx-k>... : independently confirm a seeded change in a scratch worktree:
demo passes on the clean tree, fails with the change, and the existing lib tests of the touched crates
still pass (no test of the stable baseline fails).  Writes <seed>/meta.json."""
import json, os, re, subprocess, sys, shutil, time
WT = os.environ.get("CONFIRM_WT", "/tmp/confirm")
TARGET = os.environ.get("CONFIRM_TARGET", "/tmp/confirm-target")
BASE = json.load(open("/root/.vp/BASELINE.json"))
STABLE = set(BASE["stable_pass"])


def sh(cmd, **kw):
    return subprocess.run(cmd, shell=True, capture_output=True, text=True, **kw)


def cargo_test(args, cwd):
    env = dict(os.environ, CARGO_TARGET_DIR=TARGET, CARGO_NET_OFFLINE="true")
    p = subprocess.run("cargo test --offline -j 8 %s --no-fail-fast 2>&1" % args, shell=True, cwd=cwd, capture_output=True, text=True, env=env)
    out = p.stdout
    failed = re.findall(r"^test (\S+) \.\.\. FAILED", out, re.M)
    passed = len(re.findall(r"^test \S+ \.\.\. ok", out, re.M))
    build_err = bool(re.search(r"^error(\[E\d+\])?:", out, re.M)) and "could not compile" in out
    return p.returncode, passed, failed, build_err, out[-1500:]


def main():
    if not os.path.exists(WT):
        subprocess.check_call(["git", "-C", "/repo", "worktree", "add", "-q", "--detach", WT, "HEAD"])
    head = sh("git -C /repo rev-parse --short HEAD").stdout.strip()
    sh("git -C %s checkout -q --detach %s" % (WT, head))
    for seed in sys.argv[1:]:
        seed = os.path.abspath(seed.rstrip("/"))
        name = os.path.basename(seed)
        am = json.load(open(os.path.join(seed, "agent_meta.json")))
        how = am.get("demo_how_to_run", "")
        m = re.search(r"cargo test[^\n;&#]*?-p (\S+)(?:[^\n;&#]*?--features (\S+))?[^\n;&#]*?--test (\S+)", how)
        pkg, feats, test = m.group(1), m.group(2), m.group(3)
        demo = [f for f in os.listdir(seed) if f.endswith(".rs")][0]
        dest = os.path.join(WT, pkg, "tests", test + ".rs")
        res = {"property": name.split("-")[0], "summary": am.get("summary"), "needs": am.get("needs"), "files_touched": am.get("files_touched"),
               "base_commit": head, "demo": {"file": demo, "placed_at": "%s/tests/%s.rs" % (pkg, test)}}
        t0 = time.time()
        sh("git -C %s checkout -q -- . && git -C %s clean -fdq" % (WT, WT))
        os.makedirs(os.path.dirname(dest), exist_ok=True)
        shutil.copy(os.path.join(seed, demo), dest)
        fa = (" --features " + feats) if feats else ""
        cmd = "-p %s%s --test %s" % (pkg, fa, test)
        rc, ps, fl, be, tail = cargo_test(cmd, WT)
        res["demo_clean"] = {"cmd": "cargo test --offline " + cmd, "passed": ps, "failed": fl, "ok": rc == 0 and ps > 0}
        ap = sh("git -C %s apply %s" % (WT, os.path.join(seed, "patch.diff")))
        if ap.returncode != 0:
            res["apply_error"] = ap.stderr[-300:]
        else:
            rc, ps, fl, be, tail = cargo_test(cmd, WT)
            res["demo_with_change"] = {"passed": ps, "failed": fl, "build_error": be, "ok": (rc != 0 and not be), "tail": tail[-400:] if be else None}
            touched = sorted(set(l.split("/")[0] for l in sh("git -C %s diff --name-only" % WT).stdout.split()))
            ex = []
            for crate in touched:
                rc, ps, fl, be, tail = cargo_test("-p %s%s --lib" % (crate, fa if crate == pkg else ""), WT)
                cname = crate
                bad = [f for f in fl if ("%s::%s" % (cname, f)) in STABLE]
                ex.append({"cmd": "cargo test --offline -p %s --lib" % crate, "passed": ps, "failed_total": len(fl), "failed_in_stable_baseline": bad, "build_error": be})
            res["existing_tests_with_change"] = ex
        sh("git -C %s checkout -q -- . && git -C %s clean -fdq" % (WT, WT))
        res["confirmed"] = bool(res.get("demo_clean", {}).get("ok") and res.get("demo_with_change", {}).get("ok")
                                and all(not e["failed_in_stable_baseline"] and not e["build_error"] for e in res.get("existing_tests_with_change", [{"failed_in_stable_baseline": ["?"], "build_error": True}])))
        res["wall_s"] = round(time.time() - t0)
        json.dump(res, open(os.path.join(seed, "meta.json"), "w"), indent=1)
        print("%-8s confirmed=%s clean=%s changed=%s existing=%s (%ds)" % (name, res["confirmed"], res.get("demo_clean", {}).get("ok"), res.get("demo_with_change", {}).get("ok"),
              [(e["passed"], e["failed_in_stable_baseline"]) for e in res.get("existing_tests_with_change", [])], res["wall_s"]), flush=True)


main()
