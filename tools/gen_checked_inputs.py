#!/usr/bin/env python3
"""Regenerates rules/tables/c09_checked_inputs.json from the current tree (review the diff before committing)."""
import sys, os, json
sys.path.insert(0, os.path.dirname(os.path.dirname(os.path.abspath(__file__))))
from rules import facts, c09
F = facts.Facts("ws")
t = c09.checked_input_table(F)
json.dump(t, open(os.path.join(os.path.dirname(os.path.dirname(os.path.abspath(__file__))), "rules", "tables", "c09_checked_inputs.json"), "w"), indent=1, sort_keys=True)
print(len(t), "units", sum(len(v) for v in t.values()), "signatures")
