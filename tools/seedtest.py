#!/usr/bin/env python3
"""seedtest.py [--repo DIR] <seeded/Cxx-k | mutants/x.patch>... : apply the change to a scratch worktree
(default /tmp/seedrepo), run the property's check there (static analysis of the variant tree), undo.
Prints one line per (seed, property): caught / MISSED and the violation keys."""
import sys, subprocess, json, os, time, re
args = sys.argv[1:]
repo = "/tmp/seedrepo"
props_override = None
while args and args[0].startswith("--"):
    if args[0] == "--repo":
        repo = args[1]; args = args[2:]
    elif args[0] == "--props":
        props_override = args[1].split(","); args = args[2:]
for item in args:
    item_props = None
    if "@" in item:
        item, ip = item.split("@", 1)
        item_props = ip.split(",")
    item = item.rstrip("/")
    if os.path.isdir(item):
        patch = os.path.join(item, "patch.diff")
        props = [os.path.basename(item).split("-")[0]]
        expect = None
    else:
        patch = item
        mj = item.replace(".patch", ".json")
        meta = json.load(open(mj)) if os.path.exists(mj) else {"property": ""}
        props = meta["property"].split(",")
        expect = meta.get("expect_key")
    if props_override:
        props = props_override
    if item_props:
        props = item_props
    st = subprocess.run(["git", "-C", repo, "status", "--porcelain", "--untracked-files=no"], capture_output=True, text=True).stdout
    assert not st.strip(), repo + " is dirty: " + st
    r = subprocess.run(["git", "-C", repo, "apply", os.path.abspath(patch)], capture_output=True, text=True)
    if r.returncode != 0:
        print("%-28s APPLY-FAILED %s" % (os.path.basename(item), r.stderr.strip()[:200]))
        continue
    try:
        for prop in props:
            t = time.time()
            p = subprocess.run(["./check", prop, "--repo", repo], cwd="/verif", capture_output=True, text=True,
                               env=dict(os.environ, VERIF_EVIDENCE_DIR="/tmp/seedrepo-evidence" + ("" if repo == "/tmp/seedrepo" else "-" + os.path.basename(repo))))
            out = p.stdout + p.stderr
            keys = [l.strip() for l in out.splitlines() if l.strip().startswith("[")]
            fired = p.returncode == 1 and "VIOLATION" in out
            if "FATAL" in out or "Traceback" in out:
                verdict = "ERROR"
                keys = [out[-400:]]
            else:
                verdict = "caught" if fired and (expect is None or any(expect in k for k in keys)) else ("caught-other" if fired else "MISSED")
            print("%-28s %-4s %-12s %4.0fs %s" % (os.path.basename(item), prop, verdict, time.time() - t, "; ".join(keys)[:400]), flush=True)
    finally:
        subprocess.check_call(["git", "-C", repo, "checkout", "--", "."])
