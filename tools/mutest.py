#!/usr/bin/env python3
"""mutest.py [--benign] <patch>... : apply each patch to /repo, run the property's check, undo.
A (non-benign) mutant must make the check exit 1 with a violation key containing expect_key;
a benign mutant must leave the check silent."""
import sys, subprocess, json, os, time
args = sys.argv[1:]
benign = False
if args and args[0] == "--benign":
    benign = True
    args = args[1:]
res = []
for patch in args:
    meta = json.load(open(patch.replace(".patch", ".json"))) if os.path.exists(patch.replace(".patch", ".json")) else {}
    props = meta.get("property", "").split(",") if meta.get("property") else sys.exit("no property for " + patch)
    st = subprocess.run(["git", "-C", "/repo", "status", "--porcelain", "--untracked-files=no"], capture_output=True, text=True).stdout
    assert not st.strip(), "/repo is dirty: " + st
    subprocess.check_call(["git", "-C", "/repo", "apply", os.path.abspath(patch)])
    try:
        for prop in props:
            t = time.time()
            p = subprocess.run(["./check", prop], cwd="/verif", capture_output=True, text=True)
            out = p.stdout + p.stderr
            keys = [l.strip() for l in out.splitlines() if l.strip().startswith("[")]
            fired = p.returncode == 1 and "VIOLATION" in out
            named = any(meta.get("expect_key", "") in k for k in keys) if meta.get("expect_key") else fired
            if "FATAL" in out:
                verdict = "BUILD-FAIL"
            elif benign:
                verdict = "ok-silent" if p.returncode == 0 else "FALSE-ALARM"
            else:
                verdict = "caught" if (fired and named) else ("caught-other-key" if fired else "MISSED")
            print("%-40s %-5s %-16s %.0fs %s" % (os.path.basename(patch), prop, verdict, time.time() - t, "; ".join(keys)[:300]))
            res.append(verdict)
    finally:
        subprocess.check_call(["git", "-C", "/repo", "checkout", "--", "."])
sys.exit(0)
