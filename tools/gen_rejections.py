#!/usr/bin/env python3
"""Regenerates rules/tables/c08_rejections.json from the current tree (review the diff before committing)."""
import sys, os, json
sys.path.insert(0, os.path.dirname(os.path.dirname(os.path.abspath(__file__))))
from rules import facts, c08
F = facts.Facts("ws")
t = c08.rejection_census(F)
json.dump(t, open(os.path.join(os.path.dirname(os.path.dirname(os.path.abspath(__file__))), "rules", "tables", "c08_rejections.json"), "w"), indent=0, sort_keys=True)
for cn, per in t.items():
    print(cn, len(per), "functions", sum(per.values()), "rejecting decisions")
