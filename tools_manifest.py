#!/usr/bin/env python3
"""Regenerates MANIFEST.json from the table below (kept in one place so it stays valid)."""
import json, os
HERE = os.path.dirname(os.path.abspath(__file__))
props = [json.loads(l) for l in open(os.path.join(HERE, 'properties.jsonl'))]
exec(open(os.path.join(HERE, 'manifest_table.py')).read())
checks = []
for pid, c in CLAIMED.items():
    checks.append({
        "property_id": pid,
        "quick_cmd": "./check %s --tier quick" % pid,
        "thorough_cmd": "./check %s --tier thorough" % pid,
        "evidence_file": "evidence/%s.json" % pid,
        "replay_cmd_template": "./check %s --explain {path}" % pid,
        "engine": "arrowfacts+rules",
        "level_claimed": {"category": "other", "text": c["text"], "design_ref": "DESIGN.md §3 " + pid},
        "level_note": c["note"],
        "technique": c["technique"],
    })
na = [{"property_id": p["id"], "reason": NOT_APPLICABLE.get(p["id"], "check not built yet (bring-up); see DESIGN.md")} for p in props if p["id"] not in CLAIMED]
m = {
    "version": 1,
    "setup_cmd": "./setup.sh",
    "hooks": {"guard": "apache_arrow_rs_verif", "enable": "none needed: the analysis reads the unmodified build (cargo +nightly check with a RUSTC_WORKSPACE_WRAPPER fact extractor)",
              "baseline_off_cmd": "cd /repo && cargo nextest run --workspace --no-fail-fast --test-threads 8 --offline || cargo test --workspace --no-fail-fast --offline",
              "source_commits": [], "add_only": True},
    "engines": [
        {"name": "arrowfacts", "path": "driver/", "serves_properties": sorted(CLAIMED), "kind_free_text": "rustc_private driver: dumps ADTs, impls, signatures and MIR with resolved callees for every workspace crate under the real cargo build"},
        {"name": "rules", "path": "rules/", "serves_properties": sorted(CLAIMED), "kind_free_text": "python rule engines over the facts: Result-discipline (DISC), CFG path rules (FLOW), dispatch-table evaluation (DTM), field effects (EFF), compile-fail witnesses (WIT)"},
    ],
    "checks": checks,
    "notes": "Static analysis only: every check re-extracts facts from /repo's working tree (cargo's own freshness decides which crates are re-analysed) and decides structural necessary conditions of the property; see DESIGN.md.",
    "not_applicable": na,
}
json.dump(m, open(os.path.join(HERE, 'MANIFEST.json'), 'w'), indent=1)
print("claimed", sorted(CLAIMED), "n/a", [x["property_id"] for x in na])
