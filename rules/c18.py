"""C18 — truncation and I/O faults are reported (error discipline, flush-before-Ok, footer/EOF checks).

Decided clauses (see DESIGN.md §3 C18): every Result-returning call site in the reader/writer crates
is enumerated and none carrying an I/O error is discarded; no unwrap on io::Error; finish/close/
into_inner return Ok only after the flush event; `finished = true` only after the flush succeeded;
footer readers compare the magic before any Ok; EOF is mapped to end-of-stream only behind an
ErrorKind test."""
import re
from . import facts as factsmod
from .mirlib import Body, callee, callee_names, op_local, op_place, operand_locals, rvalue_operands
from . import disc, flow

CRATES = ["arrow_ipc", "parquet", "arrow_avro", "arrow_csv", "arrow_json"]
IO_ERR = re.compile(r"(std::io::Error|std::io::error::Error|arrow_schema::ArrowError|arrow_schema::error::ArrowError|"
                    r"parquet::errors::ParquetError|arrow_avro::errors::AvroError|csv::Error|csv::error::Error|IntoInnerError)")
PURE_IO = re.compile(r"(std::io::Error|std::io::error::Error|IntoInnerError)")

# (caller fn id, callee short) -> reason.  Confirmed by reading each site on the reference tree.
NODROP_EXEMPT = {
    ("<arrow_json::writer::encoder::JsonArrayFormatter<'_> as arrow_json::writer::encoder::Encoder>::encode", "Write::write_fmt"):
        "writes into the in-memory Vec<u8> row buffer; io::Write for Vec never fails",
    ("<arrow_json::writer::encoder::RawArrayFormatter<'_> as arrow_json::writer::encoder::Encoder>::encode", "Write::write_fmt"):
        "writes into the in-memory Vec<u8> row buffer; io::Write for Vec never fails",
    ("<parquet::compression::lz4_hadoop_codec::LZ4HadoopCodec as parquet::compression::Codec>::decompress", "Codec::decompress"):
        "documented fallback chain: hadoop framing, then LZ4 frame, then raw; the last error is returned",
    ("<parquet::data_type::ByteArray as std::fmt::Debug>::fmt", "ByteArray::as_utf8"):
        "Debug formatting falls back to byte display",
    ("<parquet::file::serialized_reader::SerializedPageReader<R> as parquet::column::page::PageReader>::peek_next_page", "TryInto::try_into"):
        "PageMetadata conversion fails exactly for non-data pages (index pages), which peek skips by design",
    ("<std::fs::File as parquet::file::reader::Length>::len", "File::metadata"):
        "long-standing: Length::len has no error channel; a failing stat yields len 0 and the footer read then fails",
    ("<std::fs::File as parquet::file::reader::Length>::len", "Result::map"):
        "same site as File::metadata above",
    ("arrow_avro::codec::Maker::<'a>::find_best_union_match", "Maker::resolve_type"):
        "probing union branches for the first resolvable one; failure of a probe is the negative answer",
    ("parquet::file::page_index::index_reader::decode_offset_index", "OffsetIndexMetaData::try_from_fast"):
        "fast-path decode; on failure the full decoder is run on the same bytes and its error is returned",
    ("arrow_avro::codec::Maker::<'a>::resolve_type::{closure#0}", "Maker::resolve_type"):
        "per-branch probe of a writer union against a non-union reader: an unresolvable branch is recorded as None in writer_to_reader and rejected when such a value is decoded",
    ("parquet::file::properties::BloomFilterPropertiesBuilder::build", "BloomFilterPropertiesBuilder::try_build"):
        "unwrap_or_else(|e| panic!(..e..)) - configuration error, not I/O",
}
NODROP_EXEMPT_MODULES = {
    "parquet::schema::parser::": "parser of the textual message-type syntax (tokens to schema); `.ok()` probes an optional numeric token / logical-type name, no I/O involved",
    "parquet::schema::printer::": "diagnostic pretty-printer writing to a caller supplied sink; not a data path",
}

NOPANIC_EXEMPT = {
    ("arrow_ipc::compression::IpcWriteContext::zstd_compressor::{closure#0}", "Compressor::new"): "zstd context allocation with a default level, no sink/source I/O involved",
    ("arrow_ipc::compression::DecompressionContext::zstd_decompressor::{closure#0}", "Decompressor::new"): "zstd context allocation, no sink/source I/O involved",
    ("parquet::compression::zstd_codec::ZSTDCodec::new", "Compressor::new"): "codec context allocation, no sink/source I/O involved",
    ("parquet::compression::zstd_codec::ZSTDCodec::new", "Decompressor::new"): "codec context allocation, no sink/source I/O involved",
    ("arrow_csv::writer::Writer::<W>::into_inner", "Writer::into_inner"):
        "sound only because Writer::write flushes on every Ok path (instance csv-write-flush of rule C18.must-flush)",
    ("arrow_json::writer::encoder::encode_binary", "Write::write_fmt"): "writes into Vec<u8>",
    ("<arrow_json::writer::encoder::BinaryEncoder<B> as arrow_json::writer::encoder::Encoder>::encode", "Write::write_fmt"): "writes into Vec<u8>",
}

FLUSH = ["std::io::Write::flush", re.compile(r"as std::io::Write>::flush$")]
WRITES = [re.compile(r"(std::io::Write::write_all|std::io::Write::write|as std::io::Write>::write_all|as std::io::Write>::write)$"),
          "arrow_ipc::writer::IpcMessageSinkExt::write_eos", "arrow_ipc::writer::write_message"]

# fn id -> list of alternatives; each alternative is a list of call specs that must ALL be passed on
# every path to a successful exit.  `field_true` names a bool field whose `true` edge also satisfies
# the obligation (the field is only set after the event: rule C18.finished-after-flush).
MUST = [
    ("ipc-file-finish", "arrow_ipc::writer::FileWriter::<W>::finish", [FLUSH], None, True),
    ("ipc-file-into_inner", "arrow_ipc::writer::FileWriter::<W>::into_inner", [["arrow_ipc::writer::FileWriter::finish"]], "finished", False),
    ("ipc-file-close", "<arrow_ipc::writer::FileWriter<W> as arrow_array::RecordBatchWriter>::close", [["arrow_ipc::writer::FileWriter::finish"]], None, False),
    ("ipc-stream-finish", "arrow_ipc::writer::StreamWriter::<W>::finish", [FLUSH], None, True),
    ("ipc-stream-into_inner", "arrow_ipc::writer::StreamWriter::<W>::into_inner", [["arrow_ipc::writer::StreamWriter::finish"]], "finished", False),
    ("ipc-stream-close", "<arrow_ipc::writer::StreamWriter<W> as arrow_array::RecordBatchWriter>::close", [["arrow_ipc::writer::StreamWriter::finish"]], None, False),
    ("parquet-file-finish", "parquet::file::writer::SerializedFileWriter::<W>::finish",
     [["parquet::file::writer::SerializedFileWriter::write_metadata"], FLUSH], None, True),
    ("parquet-file-close", "parquet::file::writer::SerializedFileWriter::<W>::close", [["parquet::file::writer::SerializedFileWriter::finish"]], None, False),
    ("parquet-file-into_inner", "parquet::file::writer::SerializedFileWriter::<W>::into_inner",
     [["parquet::file::writer::SerializedFileWriter::write_metadata"], ["parquet::file::writer::TrackedWrite::into_inner"]], None, False),
    ("parquet-tracked-into_inner", "parquet::file::writer::TrackedWrite::<W>::into_inner", [[re.compile(r"std::io::BufWriter::<W>::into_inner$")]], None, False),
    ("parquet-tracked-flush", "<parquet::file::writer::TrackedWrite<W> as std::io::Write>::flush", [FLUSH], None, False),
    ("parquet-arrow-finish", "parquet::arrow::arrow_writer::ArrowWriter::<W>::finish",
     [["parquet::arrow::arrow_writer::ArrowWriter::flush"], ["parquet::file::writer::SerializedFileWriter::finish"]], None, False),
    ("parquet-arrow-close", "parquet::arrow::arrow_writer::ArrowWriter::<W>::close", [["parquet::arrow::arrow_writer::ArrowWriter::finish"]], None, False),
    ("parquet-arrow-into_inner", "parquet::arrow::arrow_writer::ArrowWriter::<W>::into_inner",
     [["parquet::arrow::arrow_writer::ArrowWriter::flush"], ["parquet::file::writer::SerializedFileWriter::into_inner"]], None, False),
    ("parquet-arrow-rbw-close", "<parquet::arrow::arrow_writer::ArrowWriter<W> as arrow_array::RecordBatchWriter>::close",
     [["parquet::arrow::arrow_writer::ArrowWriter::close", "parquet::arrow::arrow_writer::ArrowWriter::finish"]], None, False),
    ("avro-finish", "arrow_avro::writer::Writer::<W, F>::finish", [FLUSH], None, False),
    ("csv-write-flush", "arrow_csv::writer::Writer::<W>::write", [[re.compile(r"csv::Writer::<W>::flush$"), re.compile(r"csv::writer::Writer::<W>::flush$")]], None, False),
    ("json-finish-endstream", "arrow_json::writer::Writer::<W, F>::finish", [[re.compile(r"JsonFormat::end_stream$"), re.compile(r"JsonFormat>::end_stream$")]], "finished", False),
]


def in_scope_fn(fn):
    return "mir" in fn


def run_nodrop(ck, F):
    ck.rule("C18.nodrop", "no Result carrying an I/O / format error is discarded in the IPC, Parquet, Avro, CSV, JSON crates "
            "(let _ =, .ok(), .is_ok(), unwrap_or*, if-let-Ok with a continuing Err arm); exemptions are an explicit table", floor=2500)
    ck.rule("C18.nopanic", "no unwrap/expect on Result<_, io::Error | IntoInnerError> in those crates; exemptions are an explicit table", floor=3)
    used_exempt = set()
    for c in F.crates(CRATES):
        for fn in c.fns:
            if "mir" not in fn:
                continue
            b = Body(fn)
            ck.count("bodies")
            for bb, t, et in disc.result_calls(b, lambda e: bool(IO_ERR.search(e))):
                ck.count("result_call_sites")
                if t["dest"][1]:
                    ck.ok("C18.nodrop", "%s@%s" % (fn["id"], disc.short(callee(t) or "?")), "stored", nontrivial=False)
                    continue
                fate, why = disc.classify(b, t["dest"][0])
                cs = disc.short(callee(t) or "?")
                key = "%s -> %s" % (fn["id"], cs)
                if fate == "discarded":
                    ex = NODROP_EXEMPT.get((fn["id"], cs))
                    exm = [r for m, r in NODROP_EXEMPT_MODULES.items() if fn["id"].startswith(m)]
                    if ex or exm:
                        used_exempt.add((fn["id"], cs))
                        ck.ok("C18.nodrop", key, "exempt: " + (ex or exm[0]))
                    else:
                        ck.bad("C18.nodrop", key, "result of %s (error type %s) is discarded: %s" % (callee(t), et, why), b.loc(bb))
                else:
                    ck.ok("C18.nodrop", key, "%s (%s)" % (fate, why))
                if fate == "panicked" and PURE_IO.search(et):
                    ex = NOPANIC_EXEMPT.get((fn["id"], cs))
                    if ex:
                        ck.ok("C18.nopanic", key, "exempt: " + ex)
                    else:
                        ck.bad("C18.nopanic", key, "unwrap/expect on an I/O result of %s: an I/O fault becomes a panic" % callee(t), b.loc(bb))


def field_true_blocks(body, field):
    """blocks entered on the `true` edge of a switch on a copy of self.<field>"""
    out = []
    for b in range(body.n):
        bs = body.bool_switch(b)
        if not bs:
            continue
        d, tt, ft = bs
        l = op_local(d)
        if l is None:
            continue
        neg = False
        cur = l
        hit = False
        for _ in range(6):
            ds = body.defs().get(cur, [])
            if len(ds) != 1 or ds[0][0] != "s":
                break
            rv = ds[0][3]
            if rv[0] == "un" and rv[1] == "Not":
                neg = not neg
                cur = op_local(rv[2])
                if cur is None:
                    break
                # `!self.finished` may read the field directly in the operand
                p = op_place(rv[2])
                if p and flow.self_field_of_place(p) == field and any(isinstance(e, list) and e[0] == "f" and e[2] == field for e in p[1]):
                    hit = True
                    break
            elif rv[0] == "use":
                p = op_place(rv[1])
                if p and any(isinstance(e, list) and e[0] == "f" and e[2] == field for e in p[1]):
                    hit = True
                    break
                cur = op_local(rv[1])
                if cur is None:
                    break
            else:
                break
        # direct switch on the field place
        p = op_place(d)
        if p and any(isinstance(e, list) and e[0] == "f" and e[2] == field for e in p[1]):
            hit = True
        if hit:
            out.append(ft if neg else tt)
    return out


def run_must(ck, F):
    ck.rule("C18.must-flush", "every path to a successful return of finish/close/into_inner passes the flush/finalise event(s) "
            "named for that writer, with the event's Result kept", floor=len(MUST))
    ck.rule("C18.no-write-after-flush", "no write to the sink lies between the flush event and the successful return", floor=3)
    ck.rule("C18.finished-after-flush", "a store of `true` into the writer's `finished` flag is reached only through the successful flush", floor=2)
    for iid, fid, alts, field_true, check_order in MUST:
        try:
            fn = F.fn(fid)
        except factsmod.MissingAnchor:
            ck.missing_anchor(fid, "C18.must-flush")
            continue
        b = Body(fn)
        exits = flow.ok_exits(b)
        extra = field_true_blocks(b, field_true) if field_true else []
        all_ok = True
        details = []
        for alt in alts:
            through = flow.kept_call_blocks(b, alt) + extra
            reach = b.reachable(0, removed_blocks=through)
            badx = [e for e in exits if e in reach and e not in through]
            if badx or not exits or not flow.kept_call_blocks(b, alt):
                all_ok = False
                details.append("no kept call to %s on the path to the Ok exit at %s" % (
                    [getattr(x, "pattern", x) for x in alt], [b.loc(e) for e in badx] or "(no such call found)"))
        if all_ok:
            ck.ok("C18.must-flush", iid, "%s: %d ok-exits, all pass %s" % (fid, len(exits), [[getattr(x, "pattern", x) for x in a] for a in alts]))
        else:
            ck.bad("C18.must-flush", iid, "%s: %s" % (fid, "; ".join(details)), "%s:%s" % (fn["file"], fn["line"]))
        if check_order:
            last = alts[-1]
            late = flow.none_after(b, last, WRITES, exits)
            if late:
                ck.bad("C18.no-write-after-flush", iid, "%s: sink write at %s happens after the flush event on a path to Ok" % (fid, [b.loc(x) for x in late]),
                       b.loc(late[0]))
            else:
                ck.ok("C18.no-write-after-flush", iid, "%d write calls, none after the flush" % len(flow.call_blocks(b, WRITES)))
        # finished = true only after flush success
        for sb, si, st in flow.field_stores(b, "finished"):
            rv = st[2]
            if rv[0] == "use" and rv[1][0] == "k" and "true" in rv[1][1]:
                through = flow.kept_call_blocks(b, alts[-1])
                if b.must_pass(through, sb):
                    ck.ok("C18.finished-after-flush", iid, "store at %s dominated by the flush event" % b.loc(sb))
                else:
                    ck.bad("C18.finished-after-flush", iid, "%s sets finished=true on a path that has not passed the flush event" % fid, b.loc(sb))


def run_shortwrite(ck, F):
    ck.rule("C18.short-write", "every call to Write::write / write_vectored uses the returned byte count (no silent short write); "
            "TrackedWrite adds the *returned* count to bytes_written", floor=2)
    for c in F.crates(CRATES):
        for fn in c.fns:
            if "mir" not in fn:
                continue
            b = Body(fn)
            for bb, t in b.calls():
                cs = disc.short(callee(t) or "")
                if cs not in ("Write::write", "Write::write_vectored"):
                    continue
                key = "%s -> %s" % (fn["id"], cs)
                if t["dest"][1]:
                    ck.ok("C18.short-write", key, "stored")
                    continue
                d = t["dest"][0]
                # the count: Ok payload of the result or of the Try::branch Continue value
                tainted = b.taint({d})
                used = False
                for bl in range(b.n):
                    for s in b.stmts(bl):
                        if s[0] == "a" and s[2][0] == "bin" and s[2][1] in ("Add", "AddWithOverflow", "AddUnchecked", "Sub", "Lt", "Le", "Gt", "Ge", "Eq", "Ne"):
                            if any(l in tainted for l in (operand_locals(s[2][2]) + operand_locals(s[2][3]))):
                                used = True
                        if s[0] == "a" and s[1][0] == 0 and any(l in tainted for op in rvalue_operands(s[2]) for l in operand_locals(op)):
                            used = True
                    tt = b.term(bl)
                    if tt["k"] == "call" and tt is not t and "Try" not in (callee(tt) or "") and "from_residual" not in (callee(tt) or ""):
                        if any(l in tainted for a in tt["args"] for l in operand_locals(a)):
                            used = True
                if used:
                    ck.ok("C18.short-write", key, "returned count flows into arithmetic/return")
                else:
                    ck.bad("C18.short-write", key, "the byte count returned by %s is never used: a short write would go unnoticed" % callee(t), b.loc(bb))


def _const_hits(body, op, pat):
    if op[0] != "k":
        return False
    if pat.search(op[1]):
        return True
    m = re.search(r"promoted\[(\d+)\]", op[1])
    if m and "promoted" in body.fn:
        pb = body.fn["promoted"][int(m.group(1))]
        for bl in pb["blocks"]:
            for s in bl["s"]:
                if s[0] == "a":
                    for o in rvalue_operands(s[2]):
                        if o[0] == "k" and pat.search(o[1]):
                            return True
    return False


def const_mentions(body, term, pat):
    """does any argument of `term` derive (backward slice) from a constant operand / promoted matching pat?"""
    for a in term["args"]:
        if _const_hits(body, a, pat):
            return True
        l = op_local(a)
        if l is None:
            continue
        seen, _ = body.back_slice(l)
        for x in seen:
            for d in body.defs().get(x, []):
                if d[0] == "s":
                    for op in rvalue_operands(d[3]):
                        if _const_hits(body, op, pat):
                            return True
    return False


FOOTERS = [
    ("ipc-footer-magic", "arrow_ipc::reader::read_footer_length", re.compile(r"ARROW_MAGIC")),
    ("parquet-footer-magic", "parquet::file::metadata::footer_tail::FooterTail::try_new", re.compile(r"PARQUET_MAGIC")),
]


def run_footer(ck, F):
    ck.rule("C18.footer-magic", "footer decoders compare the trailing magic and can only return Ok after that comparison; "
            "a rejecting exit is reachable from it", floor=len(FOOTERS))
    for iid, fid, pat in FOOTERS:
        try:
            fn = F.fn(fid)
        except factsmod.MissingAnchor:
            ck.missing_anchor(fid, "C18.footer-magic")
            continue
        b = Body(fn)
        cmp_blocks = []
        for bb, t in b.calls():
            cn = callee(t) or ""
            if "PartialEq" in cn and (cn.endswith("::eq") or cn.endswith("::ne")) and const_mentions(b, t, pat):
                cmp_blocks.append(bb)
        exits = flow.ok_exits(b)
        errs = flow.err_exits(b)
        if not cmp_blocks:
            ck.bad("C18.footer-magic", iid, "%s no longer compares against the magic constant" % fid, "%s:%s" % (fn["file"], fn["line"]))
            continue
        reach = b.reachable(0, removed_blocks=cmp_blocks)
        badx = [e for e in exits if e in reach]
        rej = any(e in b.reachable(cb) for cb in cmp_blocks for e in errs)
        if badx or not rej:
            ck.bad("C18.footer-magic", iid, "%s: an Ok exit (%s) is reachable without the magic comparison, or the comparison cannot reject" % (
                fid, [b.loc(e) for e in badx]), "%s:%s" % (fn["file"], fn["line"]))
        else:
            ck.ok("C18.footer-magic", iid, "%d comparison(s) dominate %d ok-exit(s)" % (len(cmp_blocks), len(exits)))


EOFS = [
    ("ipc-stream-eof", "arrow_ipc::reader::MessageReader::<R>::read_meta_len", re.compile(r"Read::read_exact$|::read_exact$")),
]


def run_eof(ck, F):
    ck.rule("C18.eof-only", "an I/O error is turned into end-of-stream (Ok) only behind a test of its ErrorKind; any other error propagates", floor=len(EOFS))
    for iid, fid, readpat in EOFS:
        try:
            fn = F.fn(fid)
        except factsmod.MissingAnchor:
            ck.missing_anchor(fid, "C18.eof-only")
            continue
        b = Body(fn)
        exits = flow.ok_exits(b)
        done = False
        for bb, t in b.calls():
            if not readpat.search(callee(t) or ""):
                continue
            if t["dest"][1]:
                continue
            d = t["dest"][0]
            # Err edge of the match on the read result
            dts = [s[1][0] for bl in range(b.n) for s in b.stmts(bl) if s[0] == "a" and s[2][0] == "discr" and s[2][1][0] == d]
            for bl in range(b.n):
                tt = b.term(bl)
                if tt["k"] == "switch" and any(l in dts for l in operand_locals(tt["d"])):
                    vals = dict(tt["ts"])
                    errt = vals.get("1", tt["else"])
                    kind_blocks = [x for x, ct in b.calls() if disc.short(callee(ct) or "") == "Error::kind"]
                    r = b.reachable(errt, removed_blocks=kind_blocks)
                    badx = [e for e in exits if e in r]
                    done = True
                    if badx or not kind_blocks:
                        ck.bad("C18.eof-only", iid, "%s: the Err arm of the read reaches an Ok exit (%s) without testing ErrorKind" % (fid, [b.loc(e) for e in badx]), b.loc(bl))
                    else:
                        ck.ok("C18.eof-only", iid, "Err arm reaches Ok only through io::Error::kind()")
            if done:
                break
        if not done:
            # the read is `?`-propagated or absent: propagation is fine (nodrop covers it) but the anchor moved
            ck.bad("C18.eof-only", iid, "%s: no match on the read result found (anchor moved?)" % fid, "%s:%s" % (fn["file"], fn["line"]))


KIND_SITES = {
    "arrow_ipc::reader::MessageReader::<R>::read_meta_len": "UnexpectedEof on the 4-byte length prefix is the documented end of stream (rule C18.eof-only)",
}


def run_kind_inventory(ck, F):
    ck.rule("C18.errorkind-inventory", "functions of the reader/writer crates that branch on io::Error::kind() (the only way an I/O error can be "
            "turned into something else than an error) are exactly the audited ones", floor=1)
    for c in F.crates(CRATES):
        for fn in c.fns:
            if "mir" not in fn:
                continue
            b = Body(fn)
            hits = [bb for bb, t in b.calls() if disc.short(callee(t) or "") == "Error::kind" and "std::io" in (callee(t) or "")]
            if not hits:
                continue
            if fn["id"] in KIND_SITES:
                ck.ok("C18.errorkind-inventory", fn["id"], "audited: " + KIND_SITES[fn["id"]])
            else:
                # allowed without audit only if every path from the test leads to an error exit
                exits = flow.ok_exits(b) if flow.returns_result(b) else b.return_blocks()
                errs = set(flow.err_exits(b))
                r = set()
                for h in hits:
                    r |= b.reachable(h)
                swallow = [e for e in exits if e in r and e not in errs]
                if swallow and flow.returns_result(b):
                    ck.bad("C18.errorkind-inventory", fn["id"], "%s branches on io::ErrorKind and can then return Ok: an I/O fault may be mapped to data/end-of-input" % fn["id"], b.loc(hits[0]))
                else:
                    ck.ok("C18.errorkind-inventory", fn["id"], "kind() only refines the error that is returned")


def run(ck, tier):
    F = factsmod.Facts("ws")
    from . import influence as _infl
    _infl.run(ck, F, 'C18')
    from . import mustpass as _mp
    _mp.run(ck, F, 'C18')
    from . import accum as _acc2
    _acc2.run2(ck, F, 'C18')
    from . import relations as _rel
    _rel.run(ck, F, 'C18')
    from . import guards as _grd
    _grd.run(ck, F, 'C18')
    # resumable varint decoder of the Avro reader: a short read must not lose or mis-shift the partial value (rules of C14)
    from . import c14, core
    c14.run_resumable(core.Renamed(ck, "C14.", "C18."), F)
    run_kind_inventory(ck, F)
    run_nodrop(ck, F)
    run_must(ck, F)
    run_shortwrite(ck, F)
    run_footer(ck, F)
    run_eof(ck, F)
    ck.note("Decided: error discipline at every Result call site of the I/O crates, flush-before-Ok on %d writer exits, footer magic and EOF mapping. "
            "Not decided: that bytes written before a fault are a prefix of the fault-free output." % len(MUST))
    return F.info
