"""C02 — content, equality and kernels depend only on logical values (structural clauses).

1. equal_values routes every DataType constructor to a comparison (no type falls into a diverging arm);
2. equality tests the null masks before the values on every path;
3. sibling arms of the equality / comparison dispatches all use the slicing parameters (ARM-UNIFORM);
4. (buffer, offset) argument pairs come from the same object (PAIR);
5. array types whose nullness is not in their own validity buffer override logical_nulls & friends;
6. fallible element closures only run on valid slots (rule shared with C12)."""
import re
from . import facts as factsmod, flow, dtm, arms, pairs, c12, nullguard
from .mirlib import Body, callee

LOGICAL = [("arrow_array::array::dictionary_array::DictionaryArray", ["logical_nulls", "is_nullable"]),
           ("arrow_array::array::run_array::RunArray", ["logical_nulls", "is_nullable"]),
           ("arrow_array::array::union_array::UnionArray", ["logical_nulls", "is_nullable"]),
           ("arrow_array::array::null_array::NullArray", ["logical_nulls", "is_nullable"])]


def run(ck, tier):
    F = factsmod.Facts("ws")
    from . import influence as _infl
    _infl.run(ck, F, 'C02')
    from . import mustpass as _mp
    _mp.run(ck, F, 'C02')
    from . import accum as _acc2
    _acc2.run2(ck, F, 'C02')
    from . import relations as _rel
    _rel.run(ck, F, 'C02')
    from . import guards as _grd
    _grd.run(ck, F, 'C02')
    from . import siblings as _sib
    _sib.check(ck, F, 'C02')
    from . import accum as _acc
    _acc.run(ck, F, 'C02')
    from . import c12x
    c12x.run(ck, F, rule="C02.ree-coordinates")
    from . import c02x
    c02x.run(ck, F)
    ck.rule("C02.equal-total", "arrow_data::equal::equal_values routes every DataType constructor to a comparison implementation", floor=41)
    variants = dtm.enum_variants(F, "arrow_schema::datatype::DataType")
    fn = F.resolve("arrow_data::equal::equal_values")
    if fn is None:
        ck.missing_anchor("arrow_data::equal::equal_values", "C02.equal-total")
    else:
        b = Body(fn)
        for name, d in variants:
            s = dtm.supported_under(b, {"call:ArrayData::data_type": d})
            if s is True or (s is None and False):
                ck.ok("C02.equal-total", name, "routed")
            else:
                # equal_values has no Result: 'supported' means a non-diverging return is reachable
                r = dtm.reach_under(b, {"call:ArrayData::data_type": d})
                if any(x in r for x in b.return_blocks()) and s is not None:
                    ck.ok("C02.equal-total", name, "routed")
                else:
                    ck.bad("C02.equal-total", name, "equal_values has no (non-diverging) arm for %s: `==` on such arrays panics or the dispatch moved" % name, "arrow-data/src/equal/mod.rs")

    ck.rule("C02.nulls-before-values", "array equality compares the null masks before it compares values (bytes under nulls never decide equality)", floor=1)
    for fid in ("arrow_data::equal::equal_range", "arrow_data::equal::equal"):
        fn = F.resolve(fid)
        if fn is None:
            continue
        b = Body(fn)
        nb = [bb for bb, t in b.calls() if flow.norm(callee(t) or "").endswith("::equal_nulls")]
        vb = [bb for bb, t in b.calls() if flow.norm(callee(t) or "").endswith("::equal_values")]
        if not vb:
            continue
        if nb and all(b.must_pass(nb, v) for v in vb):
            ck.ok("C02.nulls-before-values", fid, "equal_nulls dominates equal_values")
        else:
            ck.bad("C02.nulls-before-values", fid, "%s reaches equal_values without having compared the null masks" % fid, "%s:%s" % (fn["file"], fn["line"]))

    ck.rule("C02.arm-uniform", "every arm of the equality / comparison dispatches uses the slicing parameters that its siblings use", floor=6)
    tab = [e for e in arms.load_table() if e["fn"].startswith(("arrow_data::equal", "arrow_ord::", "arrow_data::data"))]
    arms.check(ck, F, "C02.arm-uniform", tab)
    stab = [e for e in arms.load_sink_table() if e["fn"].startswith("arrow_data::equal") or e["fn"].endswith("ArrayData::slice")]
    ck.rule("C02.sink-uniform", "every arm of the equality dispatches / ArrayData::slice lets lhs_start / rhs_start / len / offset influence the result", floor=len(stab))
    arms.check_sinks(ck, F, "C02.sink-uniform", stab)

    pairs.check(ck, F, "C02.buffer-offset-pair", ["arrow_arith", "arrow_buffer", "arrow_select", "arrow_data", "arrow_array", "arrow_ord", "arrow_string", "arrow_cast"], 15)

    pairs.check_cross(ck, F, "C02.bitcopy-offset-slots", ["arrow_buffer", "arrow_data", "arrow_array", "arrow_select", "arrow_arith", "arrow_cast"], 3)

    pairs.check_child_window(ck, F, "C02.child-window-from-offsets", ["arrow_cast", "arrow_select", "arrow_ord", "arrow_string", "arrow_row", "arrow_json", "arrow_ipc", "arrow_array", "arrow_arith", "arrow_data", "parquet"], 2)
    nullguard.check(ck, F, "C02.null-guarded-access", nullguard.load_table(), 35)

    ck.rule("C02.logical-nulls-overridden", "array types whose nulls do not live in their own validity buffer override logical_nulls and is_nullable (logical_null_count defaults to counting logical_nulls)", floor=len(LOGICAL))
    c = F.crate("arrow_array")
    for ty, need in LOGICAL:
        items = set()
        for im in c.impls:
            if im.get("trait") == "arrow_array::array::Array" and re.sub(r"<.*$", "", im["self_ty"]) == ty:
                items |= set(i.split("::")[-1] for i in im["items"])
        missing = [n for n in need if n not in items]
        if not items:
            ck.missing_anchor("impl Array for " + ty, "C02.logical-nulls-overridden")
        elif missing:
            ck.bad("C02.logical-nulls-overridden", ty, "impl Array for %s no longer overrides %s: kernels would treat logically-null slots as valid" % (ty, missing), None)
        else:
            ck.ok("C02.logical-nulls-overridden", ty, "overrides %s" % need)

    # fallible op on valid slots only: the clause 'arbitrary bytes under null slots never influence the success/error outcome'
    c12.run_fov(ck, F)
    ck.rules["C02.fallible-on-valid-only"] = ck.rules.pop("C12.fallible-on-valid-only")
    ck.floors["C02.fallible-on-valid-only"] = ck.floors.pop("C12.fallible-on-valid-only")
    ck.instances = [(("C02.fallible-on-valid-only",) + i[1:]) if i[0] == "C12.fallible-on-valid-only" else i for i in ck.instances]
    for v in ck.violations:
        if v["rule"] == "C12.fallible-on-valid-only":
            v["rule"] = "C02.fallible-on-valid-only"
            v["key"] = v["key"].replace("C12.", "C02.")
    ck.note("Decided: totality of the equality dispatch, null masks compared first, arm uniformity of slicing parameters, buffer/offset pairing, logical-null overrides, "
            "fallible closures on valid slots only. Not decided: congruence of kernels under re-slicing / padding (a relation between two runs).")
    return F.info
