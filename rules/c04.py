"""C04 — IPC round trip (table agreement and dictionary-tracker state).

1. reader / skipper agreement: for every DataType constructor, RecordBatchDecoder::create_array and
   skip_field consume the same number of field nodes and buffers and recurse into the same number of
   children (abstract counts: static call sites, constant-range loops multiplied out, other loops
   'variadic').  Column projection skips with skip_field exactly what a full read would have consumed; a
   one-buffer disagreement shifts every later column.
2. dictionary tracker: every path of DictionaryTracker::insert / insert_column that reports "dictionary
   must be (re)sent" has stored the new dictionary into `written`; the reader applies `isDelta`."""
import re
from . import facts as factsmod, flow, dtm
from .mirlib import Body, callee, op_local

READER = "arrow_ipc::reader::RecordBatchDecoder::<'a>::create_array"
SKIPPER = "arrow_ipc::reader::RecordBatchDecoder::<'a>::skip_field"
DT = "call:Field::data_type"


def in_cycle(body, b, within):
    for s in body.succ(b):
        if s in within:
            r = body.reachable(s)
            if b in r:
                return True
    return False


def const_range_len(body, b, within):
    """if block b sits in a `for _ in lo..hi` loop with literal bounds, return hi - lo"""
    cands = []
    for bl in within:
        for s in body.stmts(bl):
            if s[0] == "a" and s[2][0] == "agg" and s[2][1][0] == "adt" and s[2][1][1] == "std::ops::Range":
                ops = s[2][2]
                if len(ops) == 2 and ops[0][0] == "k" and ops[1][0] == "k":
                    m0 = re.match(r"^(\d+)_", ops[0][1])
                    m1 = re.match(r"^(\d+)_", ops[1][1])
                    if m0 and m1 and body.must_pass([bl], b):
                        cands.append(int(m1.group(1)) - int(m0.group(1)))
                elif body.must_pass([bl], b):
                    cands.append(None)
    if len(cands) == 1 and cands[0] is not None:
        return cands[0]
    return None


def abstract_count(F, body, reach, pat):
    """abstract number of calls to `pat`: int, or 'var' when a call sits in a non-constant loop / closure"""
    total = 0
    var = False
    for bb, t in body.calls():
        if bb not in reach:
            continue
        n = flow.norm(callee(t) or "")
        if pat.search(n):
            if in_cycle(body, bb, reach):
                k = const_range_len(body, bb, reach)
                if k is None:
                    var = True
                else:
                    total += k
            else:
                total += 1
    # closures created in the reachable region that call pat
    crate = F.crate("arrow_ipc")
    root = body.fn["id"] if body.fn["kind"] != "Closure" else body.fn.get("parent")
    for cl in crate.closures_of.get(root, []):
        if "mir" not in cl:
            continue
        if any(pat.search(flow.norm(callee(t) or "")) for _, t in Body(cl).calls()):
            for pb, blk, loc in flow.closure_creations(F, cl):
                if pb.fn is body.fn and blk in reach:
                    var = True
    return "var(+%d)" % total if var else total


def run_agreement(ck, F):
    ck.rule("C04.read-skip-agreement", "for every DataType constructor RecordBatchDecoder::create_array and skip_field consume the same abstract number of "
            "field nodes, buffers and child recursions", floor=41)
    variants = dtm.enum_variants(F, "arrow_schema::datatype::DataType")
    try:
        rb = Body(F.fn(READER))
        sb = Body(F.fn(SKIPPER))
    except factsmod.MissingAnchor as e:
        ck.missing_anchor(str(e), "C04.read-skip-agreement")
        return
    NODE = re.compile(r"RecordBatchDecoder::next_node$")
    RBUF = re.compile(r"RecordBatchDecoder::next_buffer$")
    SBUF = re.compile(r"RecordBatchDecoder::skip_buffer$")
    RREC = re.compile(r"RecordBatchDecoder::create_array$")
    SREC = re.compile(r"RecordBatchDecoder::skip_field$")
    resolved = 0
    for name, d in variants:
        rr = dtm.reach_under(rb, {DT: d})
        sr = dtm.reach_under(sb, {DT: d})
        if len(rr) < rb.n or len(sr) < sb.n:
            resolved += 1
        r_sig = (abstract_count(F, rb, rr, NODE), abstract_count(F, rb, rr, RBUF), abstract_count(F, rb, rr, RREC))
        s_sig = (abstract_count(F, sb, sr, NODE), abstract_count(F, sb, sr, SBUF), abstract_count(F, sb, sr, SREC))
        if r_sig == s_sig:
            ck.ok("C04.read-skip-agreement", name, "nodes/buffers/children = %s" % (r_sig,))
        else:
            ck.bad("C04.read-skip-agreement", name, "create_array consumes (nodes, buffers, children) = %s but skip_field skips %s for %s: with a projection every "
                   "column after a skipped %s column is decoded from the wrong buffers" % (r_sig, s_sig, name, name), "arrow-ipc/src/reader.rs")
    if resolved < 20:
        ck.bad("C04.read-skip-agreement", "dispatch", "the data_type dispatch of create_array/skip_field was not resolved (anchor moved): only %d constructors pruned anything" % resolved, None)


TRACKER = [
    ("tracker-insert", "arrow_ipc::writer::DictionaryTracker::insert"),
    ("tracker-insert_column", "arrow_ipc::writer::DictionaryTracker::insert_column"),
]


def run_tracker(ck, F):
    ck.rule("C04.tracker-records-sent", "DictionaryTracker::insert/insert_column: every path that tells the writer to (re)send a dictionary "
            "(Ok(true) / DictionaryUpdate::New|Replaced|Delta) has stored it into `written` first", floor=2)
    INS = re.compile(r"HashMap::<K, V, S>::insert$|HashMap::<K, V, S, A>::insert$|collections::HashMap.*::insert$")
    for iid, fid in TRACKER:
        try:
            fn = F.fn(fid)
        except factsmod.MissingAnchor:
            ck.missing_anchor(fid, "C04.tracker-records-sent")
            continue
        b = Body(fn)
        wl = flow.locals_reading_field(b, "written")
        tw = b.taint(wl)
        ins = [bb for bb, t in b.calls() if INS.search(callee(t) or "") and t["args"] and any(l in tw for l in [op_local(t["args"][0])] if l is not None)]
        send = []
        for bl in range(b.n):
            for s in b.stmts(bl):
                if s[0] != "a" or s[2][0] != "agg" or s[2][1][0] != "adt":
                    continue
                adt, var = s[2][1][1], s[2][1][3]
                if adt.endswith("DictionaryUpdate") and var in ("New", "Replaced", "Delta"):
                    send.append(bl)
                if adt == "std::result::Result" and var == "Ok" and b.locals[0].startswith("std::result::Result<bool"):
                    ops = s[2][2]
                    if ops and ops[0][0] == "k" and ops[0][1] == "true":
                        send.append(bl)
        bad = [b.loc(x) for x in send if not b.must_pass(ins, x)]
        if ins and send and not bad:
            ck.ok("C04.tracker-records-sent", iid, "%d send exits, all after written.insert" % len(send))
        else:
            ck.bad("C04.tracker-records-sent", iid, "%s reports that a dictionary must be sent at %s without recording it in `written` (inserts found: %d, send exits: %d): "
                   "the next batch with the old dictionary is then not re-sent and is decoded against the wrong one" % (fid, bad, len(ins), len(send)), bad[0] if bad else "%s:%s" % (fn["file"], fn["line"]))
    ck.rule("C04.reader-honours-delta", "read_dictionary_impl consults isDelta() before storing into dictionaries_by_id", floor=1)
    try:
        fn = F.resolve("arrow_ipc::reader::read_dictionary_impl")
        if fn is None:
            raise factsmod.MissingAnchor("arrow_ipc::reader::read_dictionary_impl")
        b = Body(fn)
        delta = [bb for bb, t in b.calls() if (callee(t) or "").endswith("::isDelta")]
        stores = [bb for bb, t in b.calls() if INS.search(callee(t) or "") or (callee(t) or "").endswith("::update_dictionaries")]
        if delta and stores and all(b.must_pass(delta, s) for s in stores):
            ck.ok("C04.reader-honours-delta", "read_dictionary_impl", "%d stores after the isDelta() test" % len(stores))
        else:
            ck.bad("C04.reader-honours-delta", "read_dictionary_impl", "dictionary stored without consulting isDelta() (%d tests, %d stores)" % (len(delta), len(stores)), "%s:%s" % (fn["file"], fn["line"]))
    except factsmod.MissingAnchor as e:
        ck.missing_anchor(str(e), "C04.reader-honours-delta")


CODEC_WRITERS = ["arrow_ipc::writer::IpcDataGenerator::record_batch_to_bytes", "arrow_ipc::writer::IpcDataGenerator::dictionary_batch_to_bytes"]


def run_codec(ck, F):
    ck.rule("C04.body-codec-from-options-only", "the message header announces BodyCompression iff write_options.batch_compression_type is set; the codec handed to "
            "write_array_data (which decides whether the body buffers ARE compressed) must therefore be a function of the write options alone: no other parameter "
            "(is_delta, the batch, the tracker) may influence it, by data flow or by choosing between two definitions", floor=len(CODEC_WRITERS))
    for fid in CODEC_WRITERS:
        fn = F.resolve(fid)
        if fn is None:
            ck.missing_anchor(fid, "C04.body-codec-from-options-only")
            continue
        b = Body(fn)
        opts = [i for i, t in enumerate(b.locals) if 1 <= i <= b.argc and "IpcWriteOptions" in t]
        sites = 0
        for bb, t in b.calls():
            if not (callee(t) or "").endswith("::write_array_data"):
                continue
            for i, a in enumerate(t["args"]):
                if "CompressionCodec" not in (t.get("aty") or [""] * 9)[i]:
                    continue
                l = op_local(a)
                if l is None:
                    continue
                sites += 1
                roots = flow.influence_roots(b, l)
                foreign = sorted(r for r in roots if r[0] == "param" and r[1] not in opts)
                names = {pl[0]: nm for nm, pl in b.dbg if isinstance(pl, list) and not pl[1]}
                if foreign:
                    ck.bad("C04.body-codec-from-options-only", fid, "%s: the codec passed to write_array_data also depends on %s; the header's BodyCompression entry depends on "
                           "write_options.batch_compression_type only, so header and body can disagree about compression" % (
                               fid, ", ".join("`%s`" % names.get(r[1], "_%d" % r[1]) for r in foreign)), b.loc(bb))
                else:
                    ck.ok("C04.body-codec-from-options-only", fid, "codec depends on %s" % sorted(".".join(map(str, r[2:])) for r in roots if len(r) > 2))
        if not sites:
            ck.bad("C04.body-codec-from-options-only", fid, "%s no longer passes a CompressionCodec to write_array_data (anchor moved)" % fid, "%s:%s" % (fn["file"], fn["line"]))


def run(ck, tier):
    F = factsmod.Facts("ws")
    from . import influence as _infl
    _infl.run(ck, F, 'C04')
    from . import mustpass as _mp
    _mp.run(ck, F, 'C04')
    from . import accum as _acc2
    _acc2.run2(ck, F, 'C04')
    from . import relations as _rel
    _rel.run(ck, F, 'C04')
    from . import guards as _grd
    _grd.run(ck, F, 'C04')
    from . import siblings as _sib
    _sib.check(ck, F, 'C04')
    run_agreement(ck, F)
    run_tracker(ck, F)
    run_codec(ck, F)
    from . import arms
    stab = [e for e in arms.load_sink_table() if e["fn"].startswith("arrow_ipc::")]
    ck.rule("C04.sink-uniform", "every arm of write_array_data threads the running body offset into the metadata, the body sink and its result", floor=len(stab))
    arms.check_sinks(ck, F, "C04.sink-uniform", stab)
    ck.note("Decided: node/buffer/child consumption agreement between the IPC array reader and the projection skipper for all 41 DataType constructors; "
            "dictionary tracker bookkeeping on every send path; isDelta honoured. Not decided: byte-level round trip, slicing arithmetic, compression, Flight splitting.")
    return F.info
