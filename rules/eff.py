"""EFF — field-effect engine: which `self` fields does a method write / read (directly or through
same-type callees)."""
import re
from .mirlib import Body, callee, callee_names, op_place, rvalue_operands
from . import flow


def _self_field(place):
    """place rooted at _1: first named field, else None"""
    if place[0] != 1:
        return None
    for e in place[1]:
        if isinstance(e, list) and e[0] == "f":
            return e[2]
    return None


def direct_effects(fn, root=1):
    """(writes, reads, calls_on_self) for one body.  A `&mut self.f` borrow counts as a write of f."""
    w, r = set(), set()
    b = Body(fn)
    # locals that alias self (reborrows)
    selfs = {root}
    changed = True
    while changed:
        changed = False
        for bl in range(b.n):
            for s in b.stmts(bl):
                if s[0] == "a" and not s[1][1] and s[1][0] not in selfs:
                    rv = s[2]
                    p = rv[2] if rv[0] in ("ref", "raw") else (rv[1][1] if rv[0] == "use" and rv[1][0] in ("c", "m") else None)
                    if p is not None and p[0] in selfs and all(e == "*" for e in p[1]):
                        selfs.add(s[1][0]); changed = True

    def fld(place):
        if place[0] not in selfs:
            return None
        for e in place[1]:
            if isinstance(e, list) and e[0] == "f":
                return e[2]
        return None
    self_calls = []
    for bl in range(b.n):
        for s in b.stmts(bl):
            if s[0] == "a":
                f = fld(s[1])
                if f is not None:
                    w.add(f)
                rv = s[2]
                if rv[0] in ("ref", "raw"):
                    f2 = fld(rv[2])
                    if f2 is not None:
                        (w if rv[1] is True or (rv[0] == "raw" and "Mut" in str(rv[1])) else r).add(f2)
                else:
                    for op in rvalue_operands(rv):
                        p = op_place(op)
                        if p is not None:
                            f2 = fld(p)
                            if f2 is not None:
                                r.add(f2)
                                if op[0] == "m":
                                    w.add(f2)      # moved out
            elif s[0] == "setdiscr":
                f = fld(s[1])
                if f is not None:
                    w.add(f)
        t = b.term(bl)
        if t["k"] == "call":
            f = fld(t["dest"])
            if f is not None:
                w.add(f)
            for a in t["args"]:
                p = op_place(a)
                if p is not None:
                    if p[0] in selfs and not [e for e in p[1] if e != "*"]:
                        self_calls.append(callee(t))
                    f2 = fld(p)
                    if f2 is not None:
                        r.add(f2)
                        if a[0] == "m":
                            w.add(f2)
        elif t["k"] == "drop":
            pass
    return w, r, self_calls


def effects(F, fn, depth=3, seen=None):
    """transitive (through methods called on self, same crate) write / read sets"""
    seen = seen if seen is not None else set()
    if fn["id"] in seen or "mir" not in fn:
        return set(), set()
    seen.add(fn["id"])
    w, r, sc = direct_effects(fn)
    if depth > 0:
        for cn in sc:
            if not cn:
                continue
            g = F.resolve(cn)
            if g is not None and g.get("impl_self") == fn.get("impl_self"):
                w2, r2 = effects(F, g, depth - 1, seen)
                w |= w2
                r |= r2
    # closures of this fn capture self by reference: include their direct effects on captured self?  (upvars are
    # fields of the closure env, not `self`; handled by callers that need it)
    return w, r


def methods_of(F, crate, self_ty_prefix):
    return [fn for fn in F.crate(crate).fns if fn["kind"] == "AssocFn" and (fn.get("impl_self") or "").startswith(self_ty_prefix) and "mir" in fn]
