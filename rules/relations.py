"""RELATION RATCHET — a comparison between the same two quantities keeps cutting the same way.

A comparison `a OP b` whose result is branched on splits the possibilities {a < b, a == b, a > b} into two groups; which branch is the
"good" one does not matter for the split (`if a >= b { reject }` and `if a < b { go on } else { reject }` split alike: {<} | {==, >}).
For every function in scope the splits are recorded per pair of *named* operands (debug names with field paths, `len(x)`-style call
results, constants; operand order normalised).  If, later, the same two quantities are still compared the same number of times in that
function but one comparison splits differently -- `>=` became `>`, `!=` became `>` -- the boundary case changed sides: an off-by-one.
Comparisons whose operands cannot be named, or whose names no longer occur, are not comparable and are not reported."""
import json, os, re
from . import flow
from .mirlib import Body, callee, op_const, op_local, op_place

TABLE = os.path.join(os.path.dirname(__file__), "tables", "relations.json")
SPLIT = {"Lt": "<|=>", "Ge": "<|=>", "Le": "<=|>", "Gt": "<=|>", "Eq": "=|<>", "Ne": "=|<>"}
SWAP = {"<|=>": "<=|>", "<=|>": "<|=>", "=|<>": "=|<>"}


def _names(b):
    out = {}
    for nm, pl in b.dbg:
        if isinstance(pl, list) and isinstance(pl[0], int) and nm != "args":
            if not pl[1]:
                out.setdefault(pl[0], nm)
    return out


def _upvar_name(b, place):
    if b.fn["kind"] != "Closure" or place[0] != 1:
        return None
    fl = [e[1] for e in place[1] if isinstance(e, list) and e[0] == "f"]
    if not fl:
        return None
    for nm, pl in b.dbg:
        if isinstance(pl, list) and pl[0] == 1 and [e[1] for e in pl[1] if isinstance(e, list) and e[0] == "f"][:1] == fl[:1]:
            return nm
    return None


def name_of(b, op, names, depth=0):
    """a stable, human-readable name for an operand, or None"""
    k = op_const(op)
    if k is not None:
        txt = str(k[0] if isinstance(k, (list, tuple)) else k)
        return re.sub(r"_(u|i)(8|16|32|64|128|size)$", "", txt.split("::")[-1])
    p = op_place(op)
    if p is None or depth > 5:
        return None
    l, proj = p
    fields = [str(e[2] if e[2] is not None else e[1]) for e in proj if isinstance(e, list) and e[0] == "f"]
    up = _upvar_name(b, p)
    if up:
        return up
    if l in names:
        return ".".join([names[l]] + fields)
    ds = b.defs().get(l, [])
    if len(ds) != 1:
        return None
    d = ds[0]
    if d[0] == "call":
        t = d[3]
        cn = (callee(t) or "").split("::")[-1]
        if cn in ("len", "null_count", "offset", "as_usize", "to_usize", "num_rows", "num_columns", "capacity", "count_set_bits", "count", "max_value", "bit_len",
                  "value_length", "num_buffered_values", "remaining", "position") and t["args"]:
            inner = name_of(b, t["args"][0], names, depth + 1)
            if cn in ("as_usize", "to_usize"):
                return inner
            return "%s(%s)" % (cn, inner) if inner else None
        if cn in ("deref", "clone", "into", "from", "as_ref", "borrow", "unwrap", "unwrap_or_default") and t["args"]:
            return name_of(b, t["args"][0], names, depth + 1)
        return None
    rv = d[3]
    inner = None
    if rv[0] in ("use",):
        inner = name_of(b, rv[1], names, depth + 1)
    elif rv[0] == "cast":
        inner = name_of(b, rv[2], names, depth + 1)
    elif rv[0] == "ref":
        inner = name_of(b, ["c", rv[2]], names, depth + 1)
    elif rv[0] == "bin" and rv[1] in ("BitAnd", "Sub", "SubWithOverflow", "Add", "AddWithOverflow", "Mul", "MulWithOverflow", "Div", "Rem", "Shr", "Shl"):
        x, y = name_of(b, rv[2], names, depth + 1), name_of(b, rv[3], names, depth + 1)
        if x and y:
            inner = "(%s %s %s)" % (x, {"BitAnd": "&", "Sub": "-", "SubWithOverflow": "-", "Add": "+", "AddWithOverflow": "+", "Mul": "*", "MulWithOverflow": "*",
                                         "Div": "/", "Rem": "%", "Shr": ">>", "Shl": "<<"}[rv[1]], y)
    if inner and fields:
        return inner + "." + ".".join(fields)
    return inner


def function_relations(fn):
    """{ 'A ~ B': sorted list of splits } for comparisons whose result is branched on (directly or through one negation / copy)"""
    b = Body(fn)
    if b.n > 800:
        return {}
    names = _names(b)
    switched = set()
    for bl in range(b.n):
        t = b.term(bl)
        if t["k"] == "switch":
            l = op_local(t["d"])
            if l is not None:
                switched.add(l)
                for d in b.defs().get(l, []):       # through `!x` and copies
                    if d[0] == "s" and d[3][0] in ("un", "use"):
                        o = d[3][2] if d[3][0] == "un" else d[3][1]
                        l2 = op_local(o)
                        if l2 is not None:
                            switched.add(l2)
    # comparison results returned from a predicate closure count as branched on by the caller
    if b.locals[0] == "bool":
        switched.add(0)
        for d in b.defs().get(0, []):
            if d[0] == "s" and d[3][0] == "use":
                l2 = op_local(d[3][1])
                if l2 is not None:
                    switched.add(l2)
    out = {}
    for bl in range(b.n):
        for s in b.stmts(bl):
            if s[0] != "a" or s[2][0] != "bin" or s[2][1] not in SPLIT or s[1][0] not in switched:
                continue
            a, c = name_of(b, s[2][2], names), name_of(b, s[2][3], names)
            if not a or not c or a == c:
                continue
            split = SPLIT[s[2][1]]
            if a > c:
                a, c = c, a
                split = SWAP[split]
            # an unsigned quantity compared with 0: `x > 0` is `x != 0`, `x <= 0` is `x == 0`
            oty = s[2][4] if len(s[2]) > 4 else ""
            if isinstance(oty, str) and re.match(r"^(u8|u16|u32|u64|u128|usize)$", oty) and "0" in (a, c):
                split = "=|<>"
            out.setdefault("%s ~ %s" % (a, c), []).append(split)
    return {k: sorted(v) for k, v in out.items()}


def build_table(F, crates):
    tab = {}
    for cn in crates:
        for fn in F.crate(cn).fns:
            if "mir" not in fn:
                continue
            r = function_relations(fn)
            if r:
                tab[flow.norm(fn["id"])] = r
    return tab


def check(ck, F, rule, prefixes, floor):
    tab = json.load(open(TABLE))
    ck.rule(rule, "for every pair of named quantities that a function compares (and branches on) the same number of times as on the reference tree, each comparison "
            "still splits {<, ==, >} the same way: `>=` turned into `>`, `<=` into `<`, `!=` into `>` moves the boundary case to the other side", floor)
    for fid, ref in sorted(tab.items()):
        if not any(fid.lstrip("<").startswith(p) for p in prefixes):
            continue
        fn = F.resolve(fid)
        if fn is None or "mir" not in fn:
            continue
        if flow.calls_new_function(F, fn):
            for pair in ref:
                ck.ok(rule, "%s#%s" % (fid, pair), "not compared: the function now calls a helper that did not exist on the reference tree", nontrivial=False)
            continue
        cur = function_relations(fn)
        for pair, splits in sorted(ref.items()):
            key = "%s#%s" % (fid, pair)
            if pair not in cur or len(cur[pair]) != len(splits):
                ck.ok(rule, key, "no longer compared the same number of times: not comparable", nontrivial=False)
            elif cur[pair] == splits:
                ck.ok(rule, key, "splits %s" % splits, nontrivial=False)
            else:
                a, c = pair.split(" ~ ")
                ck.bad(rule, key, "in %s the comparison of `%s` with `%s` splits the cases as %s, on the reference tree as %s ('<|=>' means the equal case goes with "
                       "greater, '<=|>' with less, '=|<>' tests equality): the boundary case changed sides" % (fid, a, c, cur[pair], splits), "%s:%s" % (fn["file"], fn["line"]))


def run(ck, F, pid):
    from .influence import SCOPE
    check(ck, F, "%s.relation-kept" % pid, SCOPE[pid][0], FLOORS.get(pid, 0))


FLOORS = {'C01': 337, 'C02': 152, 'C03': 118, 'C04': 27, 'C07': 104, 'C08': 465, 'C09': 198, 'C10': 41, 'C11': 62, 'C12': 40, 'C13': 77, 'C14': 74, 'C16': 159, 'C18': 113}
