"""API-surface rules decided from F-adt / F-fn / F-impl facts, and compile-fail witnesses (WIT)."""
import concurrent.futures, glob, json, os, re, subprocess, tempfile
from . import facts as factsmod

WITDIR = os.path.join(factsmod.VERIF, "witness")


def last_seg(fid):
    return fid.split("::")[-1]


def must_be_unsafe(ck, F, rule, crates, name_re, exempt, floor=None):
    ck.rule(rule, "every API-reachable fn whose name matches /%s/ is declared `unsafe fn` (so safe code cannot call it: rustc E0133); exemptions listed with reasons" % name_re.pattern, floor)
    for c in F.crates(crates):
        for fn in c.fns:
            if fn["kind"] == "Closure" or not name_re.search(last_seg(fn["id"])):
                continue
            if not fn.get("reachable"):
                continue
            if fn.get("unsafe"):
                ck.ok(rule, fn["id"], "unsafe fn", nontrivial=True)
                continue
            ex = None
            for pat, why, cond in exempt:
                if re.search(pat, fn["id"]) and (cond is None or cond(fn)):
                    ex = why
            if ex:
                ck.ok(rule, fn["id"], "exempt: " + ex)
            else:
                ck.bad(rule, fn["id"], "%s is callable from safe code but its name/role says it bypasses validation" % fn["id"], "%s:%s" % (fn["file"], fn["line"]))


def fields_private(ck, F, rule, adts):
    ck.rule(rule, "invariant-carrying types expose no public field (safe code cannot forge or mutate the representation: rustc E0451/E0616)", floor=len(adts))
    for path in adts:
        try:
            a = F.adt(path)
        except factsmod.MissingAnchor:
            ck.missing_anchor(path, rule)
            continue
        pub = [(v["name"], f["name"]) for v in a["variants"] for f in v["fields"] if f["vis"] == "pub"]
        if a["kind"] == "Enum":
            ck.ok(rule, path, "enum (not checked)")
        elif pub:
            ck.bad(rule, path, "public field(s) %s on %s: safe code can write the representation directly" % (pub, path), "%s:%s" % (a["file"], a["line"]))
        else:
            ck.ok(rule, path, "%d fields, none pub" % sum(len(v["fields"]) for v in a["variants"]))


def no_impl(ck, F, rule, crates, types, traits):
    ck.rule(rule, "shared-buffer types implement none of %s (no safe mutable view of shared bytes)" % sorted(traits), floor=len(types))
    found = {t: [] for t in types}
    for c in F.crates(crates):
        for im in c.impls:
            tr = im.get("trait")
            if not tr or tr not in traits:
                continue
            st = re.sub(r"<.*$", "", im["self_ty"]).lstrip("&").replace("mut ", "")
            if st in found:
                found[st].append((tr, "%s:%s" % (im["file"], im["line"])))
    for t in types:
        if found[t]:
            ck.bad(rule, t, "%s implements %s: hands out mutable access to possibly shared memory" % (t, found[t]), found[t][0][1])
        else:
            ck.ok(rule, t, "no impl of the mutable-view traits")


def _externs(F):
    deps = os.path.join(factsmod.cache_dir("ws"), "target", "debug", "deps")
    ext = {}
    for f in glob.glob(os.path.join(deps, "lib*.rmeta")):
        name = os.path.basename(f)[3:].rsplit("-", 1)[0]
        if name not in ext or os.path.getmtime(f) > os.path.getmtime(ext[name]):
            ext[name] = f
    return deps, ext


def parse_witness_file(path):
    """sections: `//# name: <id> expect: <E-code>`; lines ending `//~ ERR` are the offending lines
    (absent from the twin); lines `//~ TWIN: <code>` appear only in the twin."""
    out = []
    cur = None
    for line in open(path):
        m = re.match(r"//#\s*name:\s*(\S+)\s+expect:\s*(\S+)", line)
        if m:
            cur = {"name": m.group(1), "expect": m.group(2), "lines": []}
            out.append(cur)
        elif cur is not None:
            cur["lines"].append(line.rstrip("\n"))
    return out


def _compile(src, deps, ext, crates):
    with tempfile.TemporaryDirectory(prefix="wit", dir=os.path.join(factsmod.VERIF, ".cache")) as td:
        p = os.path.join(td, "w.rs")
        open(p, "w").write(src)
        cmd = ["rustc", "+nightly", "--edition=2021", "--crate-type=lib", "--emit=metadata", "--error-format=json",
               "-Awarnings", "--out-dir", td, "-L", "dependency=" + deps]
        for c in crates:
            cmd += ["--extern", "%s=%s" % (c, ext[c])]
        cmd.append(p)
        r = subprocess.run(cmd, capture_output=True, text=True)
        errs = []
        for l in r.stderr.splitlines():
            try:
                d = json.loads(l)
            except ValueError:
                continue
            if d.get("level") == "error" and d.get("spans"):
                code = (d.get("code") or {}).get("code")
                line = min(s["line_start"] for s in d["spans"] if s.get("is_primary", True))
                errs.append((code, line, d["message"]))
            elif d.get("level") == "error" and "aborting" not in d.get("message", ""):
                errs.append(((d.get("code") or {}).get("code"), 0, d["message"]))
        return r.returncode, errs


def run_witnesses(ck, F, rule, wfile, crates):
    ck.rule(rule, "compile-fail witnesses: each program must be rejected by rustc with exactly the stated error code on the marked line, "
            "and its twin (the same program with the offending line replaced by the legitimate form) must compile")
    deps, ext = _externs(F)
    for c in crates:
        if c not in ext:
            ck.missing_anchor("rmeta:" + c, rule)
            return
    wits = parse_witness_file(os.path.join(WITDIR, wfile))

    def one(w):
        bad_lines, wsrc, tsrc = [], [], []
        for l in w["lines"]:
            m = re.match(r"\s*//~ TWIN:\s?(.*)$", l)
            if m:
                tsrc.append(m.group(1))
                wsrc.append("")
            elif l.rstrip().endswith("//~ ERR"):
                wsrc.append(l)
                bad_lines.append(len(wsrc))
                tsrc.append("")
            else:
                wsrc.append(l)
                tsrc.append(l)
        rc_w, errs_w = _compile("\n".join(wsrc) + "\n", deps, ext, crates)
        rc_t, errs_t = _compile("\n".join(tsrc) + "\n", deps, ext, crates)
        return w, bad_lines, rc_w, errs_w, rc_t, errs_t

    with concurrent.futures.ThreadPoolExecutor(max_workers=8) as ex:
        results = list(ex.map(one, wits))
    for w, bad_lines, rc_w, errs_w, rc_t, errs_t in results:
        key = w["name"]
        if rc_t != 0:
            ck.bad(rule, key, "witness harness broken: the twin does not compile (%s) - API moved; update witness/%s" % (errs_t[:2], wfile), "witness/%s#%s" % (wfile, key))
            continue
        good = [e for e in errs_w if e[0] == w["expect"] and e[1] in bad_lines]
        other = [e for e in errs_w if not (e[0] == w["expect"] and e[1] in bad_lines)]
        if rc_w != 0 and good and not other:
            ck.ok(rule, key, "rejected with %s: %s" % (w["expect"], good[0][2][:100]))
        elif rc_w == 0:
            ck.bad(rule, key, "program that must not type-check now COMPILES: %s" % " ".join(x.strip() for x in w["lines"] if x.rstrip().endswith("//~ ERR")), "witness/%s#%s" % (wfile, key))
        else:
            ck.bad(rule, key, "rejected, but not with %s on the marked line: %s" % (w["expect"], errs_w[:3]), "witness/%s#%s" % (wfile, key))
    return len(wits)
