"""C07 — statistics, page indexes and bloom filters never exclude present data (structural clauses).

1. every value that reaches a value/dictionary encoder is inserted into the bloom filter whenever one is
   configured: the insert depends on the bloom_filter field only (not on the statistics switch), in both
   sibling encoders;  2. both sibling encoders update min/max;  3. a truncated maximum is always
   incremented, a truncated minimum never; the exact-flags come from the matching truncation;
   4. truncation of statistics / page-index bounds of fixed-length values happens only behind
   can_truncate_value();  5. NaN is tested before values are compared for min/max."""
import re
from . import facts as factsmod, flow, eff, dtm
from .mirlib import Body, callee, op_local, operand_locals

ENCODERS = [
    ("generic-encoder", "parquet::column::writer::encoder::ColumnValueEncoderImpl::<T>::write_slice", 1),
    ("arrow-bytearray-encoder", "parquet::arrow::arrow_writer::byte_array::encode", 3),
]
INSERT = re.compile(r"bloom_filter::Sbbf::insert$")
WRITER = "parquet::column::writer::GenericColumnWriter::<'a, E>::"


def closures_of(F, fid):
    c = F.crate(fid.lstrip("<").split("::", 1)[0])
    return [fn for fn in c.closures_of.get(fid, []) if "mir" in fn]


def run(ck, tier):
    F = factsmod.Facts("ws")
    from . import influence as _infl
    _infl.run(ck, F, 'C07')
    from . import mustpass as _mp
    _mp.run(ck, F, 'C07')
    from . import accum as _acc2
    _acc2.run2(ck, F, 'C07')
    from . import relations as _rel
    _rel.run(ck, F, 'C07')
    from . import guards as _grd
    _grd.run(ck, F, 'C07')
    from . import c07x
    c07x.run(ck, F)
    c07x.run_exact_polarity(ck, F)
    ck.rule("C07.bloom-insert", "each value encoder inserts the values it encodes into the bloom filter whenever one is present: the insert exists and is "
            "control dependent on the bloom_filter field but on no statistics setting", floor=len(ENCODERS))
    ck.rule("C07.minmax-updated", "each value encoder updates min_value and max_value (sibling agreement)", floor=len(ENCODERS))
    for iid, fid, root in ENCODERS:
        try:
            fn = F.fn(fid)
        except factsmod.MissingAnchor:
            ck.missing_anchor(fid, "C07.bloom-insert")
            continue
        b = Body(fn)
        ins = [bb for bb, t in b.calls() if INSERT.search(flow.norm(callee(t) or ""))]
        if not ins:
            ck.bad("C07.bloom-insert", iid, "%s no longer calls Sbbf::insert: written values would test negative in the bloom filter" % fid, "%s:%s" % (fn["file"], fn["line"]))
        else:
            stat_sw = set(flow.switches_depending_on_field(b, "statistics_enabled"))
            bf_sw = set(flow.switches_depending_on_field(b, "bloom_filter"))
            bad = []
            for i in ins:
                dep_stat = flow.control_dependent_on(b, i, lambda body, sb: sb in stat_sw)
                dep_bf = flow.control_dependent_on(b, i, lambda body, sb: sb in bf_sw)
                if dep_stat or not dep_bf:
                    bad.append((b.loc(i), "depends on statistics_enabled" if dep_stat else "not guarded by bloom_filter"))
            if bad:
                ck.bad("C07.bloom-insert", iid, "%s: bloom filter insertion %s: with statistics disabled (or the guard gone) present values are missing from the filter" % (fid, bad), bad[0][0])
            else:
                ck.ok("C07.bloom-insert", iid, "%d insert site(s), guarded by bloom_filter only" % len(ins))
        w, r, _ = eff.direct_effects(fn, root=root)
        names = [flow.norm(callee(t) or "").split("::")[-1] for _, t in b.calls()]
        upd = ({"min_value", "max_value"} <= w) or ("update_min" in names and "update_max" in names)
        if upd:
            ck.ok("C07.minmax-updated", iid, "writes %s / calls %s" % (sorted(w & {"min_value", "max_value"}), [n for n in names if n.startswith("update_m")]))
        else:
            ck.bad("C07.minmax-updated", iid, "%s no longer updates both min_value and max_value (writes %s)" % (fid, sorted(w)), "%s:%s" % (fn["file"], fn["line"]))

    ck.rule("C07.truncation-direction", "a truncated maximum is produced only by increment()/truncate_and_increment_utf8() (never a bare prefix), "
            "a truncated minimum never goes through an increment", floor=2)
    for which, must, mustnot in (("truncate_max_value", re.compile(r"(^|::)(increment|truncate_and_increment_utf8)$"), re.compile(r"(^|::)truncate_utf8$")),
                                 ("truncate_min_value", None, re.compile(r"(^|::)(increment|truncate_and_increment_utf8)$"))):
        fid = WRITER + which
        try:
            fns = [F.fn(fid)] + closures_of(F, fid)
        except factsmod.MissingAnchor:
            ck.missing_anchor(fid, "C07.truncation-direction")
            continue
        names = [flow.norm(callee(t) or "") for fn in fns for _, t in Body(fn).calls()]
        some_literals = 0
        for fn in fns[1:]:
            for bl in fn["mir"]["blocks"]:
                for s in bl["s"]:
                    if s[0] == "a" and s[1][0] == 0 and s[2][0] == "agg" and s[2][1][0] == "adt" and s[2][1][1] == "std::option::Option" and s[2][1][3] == "Some":
                        some_literals += 1
        ok = True
        why = []
        if must is not None:
            if not any(must.search(n) for n in names):
                ok = False; why.append("no call to increment")
            if some_literals:
                ok = False; why.append("%d closure(s) return Some(prefix) directly" % some_literals)
        if any(mustnot.search(n) for n in names):
            ok = False; why.append("calls %s" % [n.split("::")[-1] for n in names if mustnot.search(n)])
        if ok:
            ck.ok("C07.truncation-direction", which, "calls %s" % sorted(set(n.split("::")[-1] for n in names if "increment" in n or "truncate" in n)))
        else:
            ck.bad("C07.truncation-direction", which, "%s: %s - a truncated upper bound that is not incremented (or a lower bound that is) excludes present values" % (fid, "; ".join(why)), "%s:%s" % (fns[0]["file"], fns[0]["line"]))

    ck.rule("C07.exact-flags", "with_max_is_exact is computed from the truncate_max_value result and with_min_is_exact from truncate_min_value", floor=2)
    try:
        ts = Body(F.fn(WRITER + "truncate_statistics"))
        n_ok = 0
        for bb, t in ts.calls():
            m = re.search(r"with_(max|min)_is_exact$", callee(t) or "")
            if not m:
                continue
            want, other = ("truncate_%s_value" % m.group(1)), ("truncate_%s_value" % ("min" if m.group(1) == "max" else "max"))
            l = op_local(t["args"][1]) if len(t["args"]) > 1 else None
            srcs = []
            if l is not None:
                # exact-source slice: follow only assignments/unary ops (not arbitrary calls) back to the producing call
                seen, calls = ts.back_slice(l)
                srcs = [flow.norm(callee(c) or "").split("::")[-1] for _, c in calls]
            key = "%s@%s" % (m.group(0), ts.loc(bb).split(":")[-1] if False else len([1 for i in ck.instances if i[0] == "C07.exact-flags"]))
            if want in srcs and other not in srcs:
                n_ok += 1
                ck.ok("C07.exact-flags", key, "derived from %s" % want)
            else:
                ck.bad("C07.exact-flags", m.group(0), "the argument of %s derives from %s, expected only %s: a truncated bound would be reported as exact" % (m.group(0), srcs, want), ts.loc(bb))
    except factsmod.MissingAnchor as e:
        ck.missing_anchor(str(e), "C07.exact-flags")

    ck.rule("C07.truncate-only-if-allowed", "bounds of fixed-length values (Decimal, Float16, intervals) are truncated only behind can_truncate_value(): "
            "in truncate_statistics for the FixedLenByteArray arm and in update_column_offset_index for every truncate call", floor=2)
    TRUNC = re.compile(r"truncate_(min|max)_value$")
    CANT = re.compile(r"can_truncate_value$")

    def can_sw(body, sb):
        calls, _ = flow.switch_discr_sources(body, sb)
        return any(CANT.search(flow.norm(callee(c) or "")) for c in calls)
    try:
        fn = F.fn(WRITER + "truncate_statistics")
        b = Body(fn)
        variants = dtm.enum_variants(F, "parquet::file::statistics::Statistics")
        d = dict(variants)["FixedLenByteArray"]
        r = dtm.reach_under(b, {2: d})
        sites = [bb for bb, t in b.calls() if TRUNC.search(callee(t) or "") and bb in r]
        # sites reachable for FLBA but not for ByteArray are the FLBA arm's
        rb = dtm.reach_under(b, {2: dict(variants)["ByteArray"]})
        sites = [s for s in sites if s not in rb]
        bad = [b.loc(s) for s in sites if not flow.control_dependent_on(b, s, can_sw)]
        if len(sites) >= 2 and not bad:
            ck.ok("C07.truncate-only-if-allowed", "truncate_statistics:FixedLenByteArray", "%d truncate calls behind can_truncate_value()" % len(sites))
        else:
            ck.bad("C07.truncate-only-if-allowed", "truncate_statistics:FixedLenByteArray", "fixed-length statistics are truncated without the can_truncate_value() guard at %s (%d sites found): "
                   "Decimal/Float16 bounds are not ordered bytewise, a truncated bound is simply wrong" % (bad, len(sites)), bad[0] if bad else "%s:%s" % (fn["file"], fn["line"]))
        fn = F.fn(WRITER + "update_column_offset_index")
        b = Body(fn)
        sites = [bb for bb, t in b.calls() if TRUNC.search(callee(t) or "")]
        bad = [b.loc(s) for s in sites if not flow.control_dependent_on(b, s, can_sw)]
        if len(sites) >= 2 and not bad:
            ck.ok("C07.truncate-only-if-allowed", "update_column_offset_index", "%d truncate calls behind can_truncate_value()" % len(sites))
        else:
            ck.bad("C07.truncate-only-if-allowed", "update_column_offset_index", "page-index bounds truncated without can_truncate_value() at %s (%d sites)" % (bad, len(sites)), bad[0] if bad else "%s:%s" % (fn["file"], fn["line"]))
    except factsmod.MissingAnchor as e:
        ck.missing_anchor(str(e), "C07.truncate-only-if-allowed")

    ck.rule("C07.nan-before-compare", "update_min / update_max test is_nan on both operands before any comparison", floor=2)
    for which in ("update_min", "update_max"):
        fid = "parquet::column::writer::" + which
        try:
            fns = [F.fn(fid)] + closures_of(F, fid)
        except factsmod.MissingAnchor:
            ck.missing_anchor(fid, "C07.nan-before-compare")
            continue
        b = Body(fns[0])
        nanb = [bb for bb, t in b.calls() if flow.norm(callee(t) or "").endswith("::is_nan")]
        # comparisons happen in update_stat (called from this fn) or directly
        cmpb = [bb for bb, t in b.calls() if re.search(r"::(update_stat|compare_greater)$", flow.norm(callee(t) or ""))]
        if len(nanb) >= 2 and cmpb and all(b.must_pass(nanb, c) for c in cmpb):
            ck.ok("C07.nan-before-compare", which, "%d is_nan tests dominate %d comparison site(s)" % (len(nanb), len(cmpb)))
        else:
            ck.bad("C07.nan-before-compare", which, "%s compares values without testing is_nan first (%d is_nan calls, %d comparison sites): NaN could become a bound" % (fid, len(nanb), len(cmpb)), "%s:%s" % (fns[0]["file"], fns[0]["line"]))
    ck.rule("C07.minmax-polarity", "in the statistics converter, functions that surface maxima never read a min_* accessor and vice versa (a swapped iterator in one "
            "macro arm reports each page's minimum as its maximum for that type only)", floor=40)
    for fn in F.crate("parquet").fns:
        if "mir" not in fn:
            continue
        root = fn.get("parent") if fn["kind"] == "Closure" else fn["id"]
        if not root.startswith("parquet::arrow::arrow_reader::statistics"):
            continue
        nm = root.split("::")[-1]
        pol = "max" if ("max" in nm and "min" not in nm) else ("min" if ("min" in nm and "max" not in nm) else None)
        if not pol:
            continue
        opp = "min" if pol == "max" else "max"
        b = Body(fn)
        hits = []
        for bb, t in b.calls():
            cn = callee(t) or ""
            last = flow.norm(cn).split("::")[-1]
            if re.search(r"(^|_)%s(_|$)" % opp, last) and not re.search(r"(^|_)%s(_|$)" % pol, last) and "std::cmp" not in cn and "Iterator" not in cn and "Ord::" not in cn:
                hits.append((b.loc(bb), last))
        key = flow.norm(fn["id"])
        if hits:
            ck.bad("C07.minmax-polarity", key, "%s (a %s-statistics function) reads %s: the surfaced %s bound is taken from the %s side" % (fn["id"], pol, hits, pol, opp), hits[0][0])
        else:
            ck.ok("C07.minmax-polarity", key, "no %s_* accessor used" % opp)
    ck.note("Decided: bloom insertion independent of the statistics switch and min/max update in both sibling encoders, direction of truncation, origin of the "
            "exact flags, can_truncate_value() guards, NaN test before comparison. Not decided: comparison per sort order, increment carry logic, Sbbf hashing.")
    return F.info
