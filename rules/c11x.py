"""C11 — two further structural clauses of the row format (Union columns).

`descending-reaches-child-bytes`: Codec::new builds the child converters of List / Map / RunEndEncoded / Union columns with
`descending: false` "because the encoded contents will be inverted"; the matching arm of encode_column therefore has to let the
column's SortOptions reach every write of child bytes into the row buffer (by passing `opts` to the encoder it delegates to, or, in an
inline closure, by making what it stores depend on `opts.descending`).

`union-type-id-translated`: arrow-row translates a union type id to a field index through a 128-entry table; a type id cast to usize
must index only that table (type ids are arbitrary i8 values, not field positions)."""
import re
from . import flow, dtm
from .mirlib import Body, callee, op_local, op_place, operand_locals, rvalue_locals, rvalue_operands, op_const


def forced_ascending_codecs(F):
    """Codec variants built by arms of Codec::new that force the child SortOptions to `descending: false`"""
    fn = F.resolve("arrow_row::Codec::new")
    if fn is None:
        return None
    b = Body(fn)
    out = set()
    forced_blocks = []
    for bl in range(b.n):
        for s in b.stmts(bl):
            if s[0] == "a" and s[2][0] == "agg" and s[2][1][0] == "adt" and s[2][1][1].endswith("SortOptions"):
                k = op_const(s[2][2][0])
                if k is not None and str(k[0] if isinstance(k, (list, tuple)) else k) == "false":
                    forced_blocks.append(bl)
    for fb in forced_blocks:
        r = b.reachable(fb)
        for bl in r:
            for s in b.stmts(bl):
                if s[0] == "a" and s[2][0] == "agg" and s[2][1][0] == "adt" and s[2][1][1].endswith("::Codec"):
                    out.add(s[2][1][3])
    # closures of Codec::new (Map builds its fields in a closure capturing `options`)
    return out, len(forced_blocks)


def _upvar_seeds(cb, prefix):
    flds = set()
    for nm, pl in cb.dbg:
        if nm.startswith(prefix) and isinstance(pl, list) and pl[0] == 1:
            for e in pl[1]:
                if isinstance(e, list) and e[0] == "f":
                    flds.add(e[1])
    seeds = set()
    for bl in range(cb.n):
        for s in cb.stmts(bl):
            if s[0] != "a":
                continue
            ps = [op_place(o) for o in rvalue_operands(s[2])]
            if s[2][0] in ("ref", "rawptr"):
                ps.append(s[2][2])
            for p in ps:
                if p and p[0] == 1 and any(isinstance(e, list) and e[0] == "f" and e[1] in flds for e in p[1]):
                    seeds.add(s[1][0])
    return seeds, flds


def run_descending(ck, F, rule="C11.descending-reaches-child-bytes"):
    ck.rule(rule, "for every row encoder whose child converters are forced to ascending by Codec::new (the column's `descending` is applied by inverting the child "
            "bytes), every write of child bytes into the row buffer in the matching arm of encode_column is influenced by the column's SortOptions", floor=4)
    res = forced_ascending_codecs(F)
    fn = F.resolve("arrow_row::encode_column")
    if res is None or fn is None:
        ck.missing_anchor("arrow_row::Codec::new / arrow_row::encode_column", rule)
        return
    forced, nblocks = res
    if not forced:
        ck.bad(rule, "Codec::new", "no Codec arm forcing `descending: false` found in Codec::new (anchor moved)", "%s:%s" % (fn["file"], fn["line"]))
        return
    b = Body(fn)
    variants = dtm.enum_variants(F, "arrow_row::Encoder")
    enc_p = [i for i in range(1, b.argc + 1) if "Encoder" in b.locals[i]]
    opts_p = [i for i in range(1, b.argc + 1) if "SortOptions" in b.locals[i]]
    data_p = [i for i in range(1, b.argc + 1) if b.locals[i] == "&mut [u8]"]
    if not variants or not enc_p or not opts_p or not data_p:
        ck.bad(rule, "encode_column", "encode_column(data: &mut [u8], .., opts: SortOptions, encoder: &Encoder) not recognised (anchor moved)", "%s:%s" % (fn["file"], fn["line"]))
        return
    data_t = b.taint({data_p[0]}, through_calls=True)
    opts_t = b.taint({opts_p[0]}, through_calls=True)
    crate = F.crate("arrow_row")
    closures = {c["id"]: c for c in crate.closures_of.get(fn["id"], [])}
    reach = {name: dtm.reach_under(b, {enc_p[0]: d}) for name, d in variants}
    for name, d in variants:
        if name not in forced:
            continue
        others = set()
        for n2 in reach:
            if n2 != name:
                others |= reach[n2]
        arm = reach[name] - others
        sites = 0
        for bl in sorted(arm):
            t = b.term(bl)
            if t["k"] != "call":
                continue
            argl = [l for a in t["args"] for l in operand_locals(a)]
            if not any(l in data_t for l in argl):
                continue
            cn = callee(t) or ""
            # closures handed to an iterator adaptor: look inside
            cl_ids = []
            for l in argl:
                for dd in b.defs().get(l, []):
                    if dd[0] == "s" and dd[3][0] == "agg" and dd[3][1][0] == "closure":
                        cl_ids.append(dd[3][1][1])
            if cl_ids:
                for cid in cl_ids:
                    cl = closures.get(cid)
                    if cl is None or "mir" not in cl:
                        continue
                    cb = Body(cl)
                    dseeds, _ = _upvar_seeds(cb, "data")
                    _, oflds = _upvar_seeds(cb, "opts")
                    dt = cb.taint(dseeds, through_calls=True)

                    def influenced(locals_):
                        for l in locals_:
                            for r in flow.influence_roots(cb, l):
                                if r[0] == "param" and r[1] == 1 and len(r) > 2 and r[2] in {str(x) for x in oflds}:
                                    return True
                        return False
                    for cbl in range(cb.n):
                        for s in cb.stmts(cbl):
                            if s[0] == "a" and s[1][0] in dt and any(isinstance(e, list) and e[0] == "i" for e in s[1][1]):
                                sites += 1
                                key = "Encoder::%s -> store" % name
                                if influenced(rvalue_locals(s[2])):
                                    ck.ok(rule, key, "stored byte depends on opts")
                                else:
                                    ck.bad(rule, key, "encode_column, Encoder::%s: a byte stored into the row buffer does not depend on the column's SortOptions although the child "
                                           "converter was built ascending" % name, cb.loc(cbl))
                        ct = cb.term(cbl)
                        if ct["k"] == "call" and (ct.get("aty") or [""])[0].startswith("&mut") and re.search(r"copy_from_slice$|clone_from_slice$|::fill$|::encode\w*$", callee(ct) or ""):
                            cargl = [l for a in ct["args"] for l in operand_locals(a)]
                            if not any(l in dt for l in cargl):
                                continue
                            sites += 1
                            key = "Encoder::%s -> %s" % (name, (callee(ct) or "").split("::")[-1])
                            # a write is fine if what it writes depends on opts, or if the same bytes are conditionally inverted afterwards (a later
                            # write into the buffer that does depend on opts, in a block this one reaches)
                            later = False
                            for x in cb.reachable(cbl):
                                if x == cbl:
                                    continue
                                for s in cb.stmts(x):
                                    if s[0] == "a" and s[1][0] in dt and s[1][1] and influenced(rvalue_locals(s[2])) and any(e == "*" for e in s[1][1]) and not any(isinstance(e, list) and e[0] == "i" for e in s[1][1]):
                                        later = True
                                xt = cb.term(x)
                                if xt["k"] == "call" and any(l in dt for a in xt["args"] for l in operand_locals(a)) and re.search(r"for_each$|invert|negate", callee(xt) or "") :
                                    later = True
                            if influenced(cargl) or later:
                                ck.ok(rule, key, "written bytes depend on opts (directly or through a following conditional inversion)")
                            else:
                                ck.bad(rule, key, "encode_column, Encoder::%s: child bytes are copied into the row buffer unchanged whatever `opts.descending` says, but Codec::new "
                                       "built the child converter with `descending: false` expecting the parent to invert them: values of the same union member sort "
                                       "ascending under a descending sort field" % name, cb.loc(cbl))
                continue
            if re.search(r"::index(_mut)?$|::len$|::iter(_mut)?$|::deref(_mut)?$|::as_(mut_)?ptr$", cn):
                continue
            sites += 1
            key = "Encoder::%s -> %s" % (name, cn.split("::")[-1])
            if any(l in opts_t for l in argl):
                ck.ok(rule, key, "opts handed to the delegate encoder")
            else:
                ck.bad(rule, key, "encode_column, Encoder::%s: %s receives the row buffer but not the column's SortOptions although the child converter was built ascending"
                       % (name, cn), b.loc(bl))
        if not sites:
            ck.bad(rule, "Encoder::%s" % name, "no write of child bytes found in the Encoder::%s arm of encode_column (anchor moved)" % name, "%s:%s" % (fn["file"], fn["line"]))


def run_type_ids(ck, F, rule="C11.union-type-id-translated"):
    ck.rule(rule, "in arrow-row a union type id (an arbitrary i8) cast to usize indexes only the 128-entry type-id -> field-index table, never a per-field vector", floor=3)
    n = 0
    for fn in F.crate("arrow_row").fns:
        if "mir" not in fn:
            continue
        b = Body(fn)
        for bl in range(b.n):
            for s in b.stmts(bl):
                if not (s[0] == "a" and s[2][0] == "cast" and s[2][1] == "IntToInt" and s[2][3] == "usize"):
                    continue
                l = op_local(s[2][2])
                if l is None or b.locals[l] != "i8":
                    continue
                idx = {s[1][0]}
                ch = True
                while ch:       # plain copies of the cast result
                    ch = False
                    for x in range(b.n):
                        for st in b.stmts(x):
                            if st[0] == "a" and st[2][0] == "use" and not st[1][1] and op_local(st[2][1]) in idx and not op_place(st[2][1])[1] and st[1][0] not in idx:
                                idx.add(st[1][0])
                                ch = True
                root = flow.norm(fn["id"])
                while "::{closure" in root:
                    root = root[:root.rindex("::{closure")]
                for x in range(b.n):
                    for st in b.stmts(x):
                        if st[0] != "a":
                            continue
                        ps = [st[1]] + [p for p in (op_place(o) for o in rvalue_operands(st[2])) if p]
                        if st[2][0] in ("ref", "rawptr"):
                            ps.append(st[2][2])
                        for p in ps:
                            if any(isinstance(e, list) and e[0] == "i" and e[1] in idx for e in p[1]):
                                n += 1
                                ty = b.locals[p[0]]
                                if re.search(r"\[\w+; 128\]", ty):
                                    ck.ok(rule, "%s [%s]" % (root, ty), "type id indexes the 128-entry table")
                                else:
                                    ck.bad(rule, "%s [%s]" % (root, ty), "%s indexes %s with a raw type id" % (fn["id"], ty), b.loc(x))
                    t = b.term(x)
                    if t["k"] == "call" and re.search(r"::index(_mut)?$", callee(t) or "") and len(t["args"]) > 1 and op_local(t["args"][1]) in idx:
                        n += 1
                        ty = re.sub(r"^&(mut )?", "", (t.get("aty") or ["?"])[0])
                        if re.search(r"\[\w+; 128\]", ty):
                            ck.ok(rule, "%s [%s]" % (root, ty), "type id indexes the 128-entry table")
                        else:
                            ck.bad(rule, "%s [%s]" % (root, ty), "%s indexes a %s with a union type id cast to usize: type ids are arbitrary i8 values (e.g. 70, 85), the vector has one "
                                   "entry per field, so this panics or picks the wrong field; translate through the type-id table as the encoder and the row grouping do"
                                   % (fn["id"], ty), b.loc(x))


def run_rows_buffer(ck, F, rule="C11.rows-buffer-ends-at-last-offset"):
    ck.rule(rule, "RowConverter::from_binary, which builds `Rows` from an externally supplied values buffer, ties the buffer's length to the last offset (truncate / "
            "resize / split_off with an argument derived from the offsets): `append` grows the buffer from the last offset and relies on zeroed space", floor=1)
    fid = "arrow_row::RowConverter::from_binary"
    fn = F.resolve(fid)
    if fn is None:
        ck.missing_anchor(fid, rule)
        return
    b = Body(fn)
    off = [t["dest"][0] for _, t in b.calls() if re.search(r"::(into_parts|offsets)$", callee(t) or "")]
    tainted = b.taint(set(off), through_calls=True)
    ok = False
    for bb, t in b.calls():
        if re.search(r"Vec(::<[^>]*>)?::(truncate|resize|split_off|drain|set_len)$", flow.norm(callee(t) or "")) and len(t["args"]) > 1:
            if any(l in tainted for l in operand_locals(t["args"][1])):
                ok = True
    if ok:
        ck.ok(rule, "from_binary", "buffer length derived from the offsets")
    else:
        ck.bad(rule, "from_binary", "RowConverter::from_binary keeps the whole values buffer of the BinaryArray: for an array sliced at its head the buffer is longer than the "
               "last offset, and rows appended later are written over stale bytes (a null row is no longer byte-equal to a fresh null row)", "%s:%s" % (fn["file"], fn["line"]))
