"""MUST-PASS RATCHET — a successful exit still goes through every call it had to go through.

For every function in scope the set of callees whose call block dominates *every* successful exit (Ok / plain return; error exits and
panics do not count) is recorded from the reference tree.  A new fast path -- `if same_dictionary { return compare(keys) }`,
`if let Some(d) = as_dictionary { return boundaries_of(keys) }` -- adds a successful exit that bypasses the real work, and the
callees it bypasses drop out of the set.  Calls that merely move relative to an error return, renamed functions and extraction into
helpers (the helper call becomes the must-pass callee; the old ones are then no longer comparable and are skipped when the function has
gained a new same-crate must-pass callee) are not reported."""
import json, os, re
from . import flow, disc
from .mirlib import Body, callee

TABLE = os.path.join(os.path.dirname(__file__), "tables", "mustpass.json")
NOISE = re.compile(r"^(core|std|alloc)::(fmt|panicking|hint|mem::drop|ptr::drop|ops::Drop|clone::Clone|convert::(Into|From|AsRef)|ops::Deref|borrow::)|::deref(_mut)?$|::clone$|::into$|::from$|::as_ref$|::borrow$|Try>::branch$|FromResidual|::into_iter$|::default$")


# pure accessors: whether they are evaluated eagerly or lazily changes with every inline / extract refactoring and never changes behaviour
GETTERS = {"len", "offset", "data_type", "nulls", "null_count", "is_empty", "values", "buffers", "buffer", "child_data", "as_ref", "as_any", "is_null", "is_valid", "value",
           "offsets", "value_offsets", "inner", "keys", "fields", "schema", "columns", "column", "num_rows", "num_columns", "as_slice", "as_ptr", "capacity", "name", "is_nullable",
           "validity", "run_ends", "type_ids", "value_length", "iter", "get", "first", "last", "unwrap", "expect", "is_some", "is_none", "is_ok", "is_err", "ok", "as_usize",
           "to_usize", "as_str", "as_bytes", "metadata", "options", "descending", "nulls_first"}


def short(n):
    n = flow.norm(n or "")
    n = re.sub(r"<[^<>]*>", "", n)
    n = re.sub(r"<[^<>]*>", "", n)
    parts = [p for p in n.replace("<", "").replace(">", "").split("::") if p]
    return "::".join(parts[-2:]) if parts else n


def mustpass_callees(fn):
    b = Body(fn)
    if b.n > 800:
        return None
    oks = flow.ok_exits(b) if flow.returns_result(b) else b.return_blocks()
    oks = [o for o in oks if o in b.reachable(0)]
    if not oks:
        return None
    dom = b.dominators()
    common = None
    for o in oks:
        d = dom.get(o)
        if d is None:
            continue
        common = set(d) if common is None else (common & d)
    if not common:
        return []
    out = set()
    for bl in common:
        t = b.term(bl)
        if t["k"] == "call":
            n = callee(t) or ""
            if n and not NOISE.search(n) and n.split("::")[-1] not in GETTERS:
                out.add(short(n))
    return sorted(out)


_EMPTY_CALL = re.compile(r"::(is_empty|len|null_count|num_rows|num_columns)$")
_PLUMBING = re.compile(r"::(deref|as_ref|borrow|clone|as_slice|as_str|values|nulls|as_any\w*)$")


def _only_empty_input_exits(b, lost):
    """every successful exit that bypasses a lost callee is taken only when a test of `x.is_empty()` / `x.len() == 0` decides so:
    the exit is control dependent on a switch whose discriminant is computed from is_empty / len and constants only"""
    from .flow import control_dependence
    oks = flow.ok_exits(b) if flow.returns_result(b) else b.return_blocks()
    oks = [o for o in oks if o in b.reachable(0)]
    dom = b.dominators()
    lost_blocks = [bl for bl, t in b.calls() if short(callee(t) or "") in lost]
    bypass = [o for o in oks if any(lb not in dom.get(o, ()) for lb in lost_blocks)]
    if not bypass:
        return False
    cd = control_dependence(b)
    for o in bypass:
        # nearest deciding switches of this exit
        sw = set(cd.get(o, ()))
        x = o
        seen = set()
        while not sw and x not in seen:        # straight-line predecessors
            seen.add(x)
            ps = [p for p in b.preds().get(x, []) if p in b.reachable(0)]
            if len(ps) != 1:
                break
            x = ps[0]
            sw = set(cd.get(x, ()))
        if not sw:
            return False
        ok_any = False
        for s_ in sw:
            d = b.term(s_)["d"]
            from .mirlib import operand_locals
            calls_seen = []
            clean = True
            for l in operand_locals(d):
                _, calls = b.back_slice(l)
                for _bl, term in calls:
                    calls_seen.append(callee(term) or "")
            if calls_seen and all(_EMPTY_CALL.search(n) or _PLUMBING.search(n) for n in calls_seen) and any(re.search(r"::(is_empty|len|num_rows)$", n) for n in calls_seen):
                ok_any = True
        if not ok_any:
            return False
    return True


def build_table(F, crates):
    tab = {}
    for cn in crates:
        for fn in F.crate(cn).fns:
            if "mir" not in fn or fn["kind"] == "Closure":
                continue
            mp = mustpass_callees(fn)
            if mp:
                tab[flow.norm(fn["id"])] = mp
    return tab


def check(ck, F, rule, prefixes, floor):
    tab = json.load(open(TABLE))
    ck.rule(rule, "every callee whose call dominated all successful exits of a function on the reference tree still does: a new successful exit (fast path, early "
            "`return Ok`) that bypasses the function's real work is reported with the callees it bypasses", floor)
    for fid, ref in sorted(tab.items()):
        if not any(fid.lstrip("<").startswith(p) for p in prefixes):
            continue
        fn = F.resolve(fid)
        if fn is None or "mir" not in fn:
            continue
        cur = mustpass_callees(fn)
        if cur is None:
            continue
        if flow.calls_new_function(F, fn):
            ck.ok(rule, fid, "not compared: the function now calls a helper that did not exist on the reference tree", nontrivial=False)
            continue
        b = Body(fn)
        present = {short(callee(t) or "") for _, t in b.calls()}
        lost = [c for c in ref if c not in cur and c in present]       # still called somewhere in the function, but no longer on every successful path
        gained_local = [c for c in cur if c not in ref]
        if lost and _only_empty_input_exits(b, lost):
            ck.ok(rule, fid, "new successful exit(s) bypass %s, but only for empty input (guarded by is_empty / len == 0)" % lost)
            continue
        if lost:
            ck.bad(rule, fid, "%s: %s no longer lie(s) on every successful path (they are still called, but some `return`/Ok exit now bypasses them)%s" % (
                fid, lost, ("; new must-pass callees: %s" % gained_local) if gained_local else ""), "%s:%s" % (fn["file"], fn["line"]))
        else:
            ck.ok(rule, fid, "%d must-pass callees kept" % len(ref), nontrivial=False)


def run(ck, F, pid):
    from .influence import SCOPE
    pre, _ = SCOPE[pid]
    check(ck, F, "%s.mustpass-kept" % pid, pre, FLOORS[pid])


FLOORS = {
 'C01': 689,
 'C02': 465,
 'C03': 183,
 'C04': 105,
 'C07': 294,
 'C08': 963,
 'C09': 605,
 'C10': 55,
 'C11': 60,
 'C12': 91,
 'C13': 120,
 'C14': 104,
 'C16': 464,
 'C18': 327,
}
