"""Mutation self-test (thorough tier): static analysis of variant source trees.

Each registered change (hand-written mutants and sub-agent seeds the property's rules are meant to
catch) is applied to a scratch copy of /repo's *working tree*, the property's rules are re-run on the
variant tree, and the change must be reported on the named rule.  Nothing of arrow-rs is executed.
A change that no longer applies is `stale`; a miss is reported as SELFTEST-MISS (it does not make the
property 'violated': the verdict on /repo itself is the one computed by the normal run)."""
import json, os, shutil, subprocess, sys, tempfile, time
from . import facts as factsmod

VERIF = factsmod.VERIF


def entries(pid):
    p = os.path.join(VERIF, "selftest.json")
    if not os.path.exists(p):
        return []
    ents = [e for e in json.load(open(p)) if e["property"] == pid]
    # bound the run time: at most two registered changes per reporting rule, fourteen per property (hand-written mutants first)
    ents.sort(key=lambda e: (not e["patch"].startswith("mutants/"), e["patch"]))
    per_rule, out = {}, []
    for e in ents:
        k = e.get("expect", "")
        if per_rule.get(k, 0) >= 2 or len(out) >= 14:
            continue
        per_rule[k] = per_rule.get(k, 0) + 1
        out.append(e)
    return out


def run(pid):
    ents = entries(pid)
    if not ents:
        return {"entries": 0, "results": []}
    t0 = time.time()
    scratch = tempfile.mkdtemp(prefix="arrowrs-selftest-")
    results = []
    try:
        repo = os.path.join(scratch, "repo")
        subprocess.check_call(["rsync", "-a", "--exclude", "/target", "--exclude", ".git", factsmod.REPO + "/", repo + "/"])
        cache = os.path.join(scratch, "cache")
        env = dict(os.environ, VERIF_CACHE=cache, VERIF_EVIDENCE_DIR=os.path.join(scratch, "evidence"))
        # warm the scratch cache with the registry dependencies already built for /repo (a real copy: cargo rewrites files in place)
        tag = subprocess.check_output([sys.executable, "-c",
                                       "import sys; sys.path.insert(0, %r); from rules import facts; facts.REPO=%r; print(facts.cache_dir('ws'))" % (VERIF, repo)], env=env, text=True).strip()
        src = factsmod.cache_dir("ws", "/repo")
        if os.path.isdir(src):
            # target dir AND facts: cargo treats unchanged crates of the copy as fresh, so their facts are reused
            os.makedirs(os.path.dirname(tag), exist_ok=True)
            subprocess.call(["cp", "-a", "--reflink=auto", src, tag])
        for e in ents:
            patch = os.path.join(VERIF, e["patch"])
            r = subprocess.run(["git", "apply", patch], cwd=repo, capture_output=True, text=True)
            if r.returncode != 0:
                results.append({"patch": e["patch"], "verdict": "stale", "detail": r.stderr.strip()[:200]})
                continue
            try:
                p = subprocess.run([os.path.join(VERIF, "check"), pid, "--repo", repo, "--tier", "quick"], cwd=VERIF, env=env, capture_output=True, text=True)
                out = p.stdout + p.stderr
                keys = [l.strip() for l in out.splitlines() if l.strip().startswith("[")]
                fired = p.returncode == 1 and "VIOLATION" in out
                named = any(e.get("expect", "") in k for k in keys)
                if "FATAL" in out or "Traceback" in out:
                    verdict = "error"
                    keys = [out[-600:]]
                elif fired and named:
                    verdict = "caught"
                elif fired:
                    verdict = "caught-other-rule"
                else:
                    verdict = "MISS"
                results.append({"patch": e["patch"], "expect": e.get("expect"), "verdict": verdict, "keys": keys[:4]})
            finally:
                subprocess.run(["git", "apply", "-R", patch], cwd=repo, capture_output=True)
    finally:
        shutil.rmtree(scratch, ignore_errors=True)
    return {"entries": len(ents), "results": results, "wall_s": round(time.time() - t0, 1)}
