"""C01 — every array returned by a safe API is well formed (structural clauses).

C01 is the union of: nobody can forge or bypass (C09 API rules + witnesses), the validating entry points
discharge every layout obligation and keep checking what they store (C09), decoders only skip validation
behind the unsafe flag (C08), the physical-shape tables are total (C03), and sibling code paths agree on
slicing arithmetic (ARM-UNIFORM / PAIR).  Added here: pointer-equality fast paths compare every
field (a too-permissive ptr_eq lets concat/interleave keep the wrong dictionary and emit out-of-range
keys), and RecordBatch keeps schema and columns in step."""
import re
from . import facts as factsmod, flow, eff, api, c09, c08, c03, c11, arms, pairs, core
from .mirlib import Body, callee

PTR_EQ = [
    # (instance, fn, fields every one of which must be read from BOTH operands)
    ("arraydata-ptr_eq", "arrow_data::data::ArrayData::ptr_eq", {"data_type", "len", "offset", "buffers", "child_data", "nulls"}),
]
BATCH_PAIRED = ("arrow_array::record_batch::RecordBatch", "columns", "schema")


def run(ck, tier):
    F = factsmod.Facts("ws")
    from . import influence as _infl
    _infl.run(ck, F, 'C01')
    from . import mustpass as _mp
    _mp.run(ck, F, 'C01')
    from . import accum as _acc2
    _acc2.run2(ck, F, 'C01')
    from . import relations as _rel
    _rel.run(ck, F, 'C01')
    from . import guards as _grd
    _grd.run(ck, F, 'C01')
    from . import c03x
    c03x.run(ck, F, rule="C01.view-rebase-guarded")
    from . import accum as _acc
    _acc.run(ck, F, 'C01')
    from . import c01x
    c01x.run(ck, F)
    r9 = core.Renamed(ck, "C09.", "C01.")
    c09.run_obligations(r9, F)
    c09.run_stored(r9, F)
    c09.run_anchors(r9, F)
    c09.run_inputs(r9, F)
    c09.run_conditional(r9, F)
    api.must_be_unsafe(ck, F, "C01.unchecked-api-is-unsafe", ["arrow_buffer", "arrow_data", "arrow_array", "arrow_schema", "arrow_row", "arrow_ipc", "arrow_select", "arrow_cast"],
                       c09.UNSAFE_NAME, c09.UNSAFE_EXEMPT, floor=60)
    api.fields_private(ck, F, "C01.representation-private", c09.PRIVATE_ADTS)
    api.run_witnesses(ck, F, "C01.witness", "core.rs.txt", ["arrow_buffer", "arrow_data", "arrow_array", "arrow_schema", "arrow_ipc"])
    ck.floors["C01.witness"] = 18
    r8 = core.Renamed(ck, "C08.", "C01.")
    c08.run_ipc_gating(r8, F)
    c08.run_inventory(r8, F)

    # valid UTF-8 out of the row format: provenance / propagation of the validate_utf8 flag and validating decode (rules of C11)
    c11.run(core.Renamed(ck, "C11.", "C01.row-"), tier)

    ck.rule("C01.ptr-eq-complete", "pointer-equality fast paths read every field of both operands (length, offset, type, buffers, children, nulls): a "
            "too-permissive ptr_eq makes dictionary merge / concat reuse the wrong dictionary", floor=len(PTR_EQ))
    for iid, fid, fields in PTR_EQ:
        fn = F.resolve(fid)
        if fn is None:
            ck.missing_anchor(fid, "C01.ptr-eq-complete")
            continue
        c = F.crate(fid.split("::")[0])
        fns = [fn] + [cl for cl in c.closures_of.get(fn["id"], []) if "mir" in cl]
        r1, r2 = set(), set()
        for f in fns:
            if f is fn:
                _, a, _ = eff.direct_effects(f, root=1)
                _, b_, _ = eff.direct_effects(f, root=2)
                r1 |= a
                r2 |= b_
        # reads through getters (self.nulls(), ...) count via the callee's own reads
        b = Body(fn)
        for bb, t in b.calls():
            g = F.resolve(callee(t) or "")
            if g is not None and g.get("impl_self") == fn.get("impl_self") and len(t["args"]) == 1:
                from .mirlib import op_local
                from . import dtm
                l = op_local(t["args"][0])
                if l is None:
                    continue
                root, _ = dtm._root_of(b, l)
                _, gr, _ = eff.direct_effects(g, root=1)
                if root == 1:
                    r1 |= gr
                elif root == 2:
                    r2 |= gr
        miss = sorted((fields - r1) | (fields - r2))
        if miss:
            ck.bad("C01.ptr-eq-complete", iid, "%s does not compare %s of both operands (reads self: %s, other: %s)" % (fid, miss, sorted(r1), sorted(r2)), "%s:%s" % (fn["file"], fn["line"]))
        else:
            ck.ok("C01.ptr-eq-complete", iid, "reads %s on both sides" % sorted(fields))

    ck.rule("C01.batch-schema-columns-paired", "every &mut self method of RecordBatch that writes `columns` also writes `schema` (they cannot drift apart)", floor=1)
    ty, fa, fb = BATCH_PAIRED
    n = 0
    for fn in eff.methods_of(F, "arrow_array", ty):
        if not fn.get("inputs") or not fn["inputs"][0].startswith("&mut "):
            continue
        w, _ = eff.effects(F, fn)
        if fa in w:
            n += 1
            if fb in w:
                ck.ok("C01.batch-schema-columns-paired", fn["id"], "writes both")
            else:
                ck.bad("C01.batch-schema-columns-paired", fn["id"], "%s changes `columns` but not `schema`" % fn["id"], "%s:%s" % (fn["file"], fn["line"]))
    if n == 0:
        ck.ok("C01.batch-schema-columns-paired", "none", "no &mut self method writes columns", nontrivial=False)

    ck.rule("C01.arm-uniform", "every arm of the kernel dispatches uses the slicing parameters that its siblings use", floor=10)
    arms.check(ck, F, "C01.arm-uniform", arms.load_table())
    ck.rule("C01.sink-uniform", "every arm of a dispatch lets the slicing variable influence each output (return value, `&mut` parameter) it influences in the sibling arms", floor=20)
    arms.check_sinks(ck, F, "C01.sink-uniform", arms.load_sink_table())
    pairs.check_threshold(ck, F, "C01.inline-view-threshold", ["arrow_select", "arrow_data", "arrow_array", "arrow_ord", "arrow_string", "arrow_cast", "arrow_row", "arrow_ipc", "arrow_json", "parquet"], 18)
    pairs.check(ck, F, "C01.buffer-offset-pair", ["arrow_arith", "arrow_buffer", "arrow_select", "arrow_data", "arrow_array", "arrow_ord", "arrow_string", "arrow_cast"], 15)
    ck.note("Decided: unforgeability, validation obligations and retention of constructor checks, gating and audited inventory of unchecked construction in decoders, "
            "completeness of ptr_eq, schema/columns pairing, arm uniformity and buffer/offset pairing. Not decided: offsets / null counts / keys computed by each kernel (value level).")
    return F.info
