"""DTM — evaluation of dispatch tables (match on enum-valued parameters) over MIR.

`reach_under(body, assume)` computes the blocks reachable from entry when the listed parameter
locals are assumed to hold the given enum variants: a `switchInt(discriminant(P))` whose place P is
the assumed parameter (through derefs / whole-value copies) follows only the matching target.
Everything else (guards, other switches) is followed both ways, so the result over-approximates
the reachable arms: `definitely unreachable` is exact, `reachable` may include guarded arms.
"""
from collections import deque
from .mirlib import Body, op_local, op_place


def enum_variants(F, path):
    a = F.adt(path)
    return [(v["name"], v["discr"] if v["discr"] is not None else str(v["idx"])) for v in a["variants"]]


def _proj_fields(proj):
    """projection -> tuple of field names if it consists only of derefs and named fields, else None"""
    out = []
    for e in proj:
        if e == "*":
            continue
        if isinstance(e, list) and e[0] == "f":
            out.append(e[2])
        else:
            return None
    return tuple(out)


def _root_of(body, local, depth=0):
    """follow single-def whole-value copies/refs/derefs/field projections back to (root local, field path)"""
    if depth > 12:
        return local, ()
    ds = body.defs().get(local, [])
    if len(ds) == 1 and ds[0][0] == "call" and not ds[0][4][1]:
        from .disc import short
        from .mirlib import callee
        return "call:" + short(callee(ds[0][3]) or "?"), ()
    if len(ds) != 1 or ds[0][0] != "s" or ds[0][4][1]:
        return local, ()
    rv = ds[0][3]
    p = None
    if rv[0] == "use" and rv[1][0] in ("c", "m"):
        p = rv[1][1]
    elif rv[0] == "ref":
        p = rv[2]
    if p is not None:
        fs = _proj_fields(p[1])
        if fs is not None:
            r, path = _root_of(body, p[0], depth + 1)
            return r, path + fs
    return local, ()


def discr_root(body, switch_block):
    """if the switch tests discriminant(P) with P = root local + derefs/fields, return ((root, fieldpath), enum type)"""
    t = body.term(switch_block)
    if t["k"] != "switch":
        return None
    l = op_local(t["d"])
    if l is None:
        return None
    ds = body.defs().get(l, [])
    if len(ds) != 1 or ds[0][0] != "s" or ds[0][3][0] != "discr":
        return None
    p = ds[0][3][1]
    fs = _proj_fields(p[1])
    if fs is None:
        return None
    r, path = _root_of(body, p[0])
    return (r, path + fs), ds[0][3][2]


def reach_under(body, assume):
    """assume: {(root local, field path tuple) or root local: discriminant value string}"""
    seen = {0}
    dq = deque([0])
    while dq:
        b = dq.popleft()
        t = body.term(b)
        succ = body.succ(b)
        if t["k"] == "switch":
            dr = discr_root(body, b)
            if dr and (dr[0] in assume or (dr[0][1] == () and dr[0][0] in assume)):
                want = assume[dr[0]] if dr[0] in assume else assume[dr[0][0]]
                vals = dict(t["ts"])
                succ = [vals[want]] if want in vals else [t["else"]]
        for s in succ:
            if s not in seen:
                seen.add(s)
                dq.append(s)
    return seen


def variants_reaching(body, param_local, variants, block):
    """names of the variants of the parameter under which `block` stays reachable"""
    return [name for name, d in variants if block in reach_under(body, {param_local: d})]
