"""DTM — evaluation of dispatch tables (match on enum-valued parameters) over MIR.

`reach_under(body, assume)` computes the blocks reachable from entry when the listed parameter
locals are assumed to hold the given enum variants: a `switchInt(discriminant(P))` whose place P is
the assumed parameter (through derefs / whole-value copies) follows only the matching target.
Everything else (guards, other switches) is followed both ways, so the result over-approximates
the reachable arms: `definitely unreachable` is exact, `reachable` may include guarded arms.
"""
from collections import deque
from .mirlib import Body, op_local, op_place


def enum_variants(F, path):
    a = F.adt(path)
    return [(v["name"], v["discr"] if v["discr"] is not None else str(v["idx"])) for v in a["variants"]]


def _proj_fields(proj):
    """projection -> tuple of field names if it consists only of derefs and named fields, else None"""
    out = []
    for e in proj:
        if e == "*":
            continue
        if isinstance(e, list) and e[0] == "f":
            out.append(e[2] if e[2] is not None else str(e[1]))
        elif isinstance(e, list) and e[0] == "v":
            out.append("@" + str(e[2]))
        else:
            return None
    return tuple(out)


def _root_of(body, local, depth=0):
    """follow single-def whole-value copies/refs/derefs/field projections back to (root local, field path)"""
    if depth > 12:
        return local, ()
    ds = body.defs().get(local, [])
    if len(ds) == 1 and ds[0][0] == "call" and not ds[0][4][1]:
        from .disc import short
        from .mirlib import callee
        return "call:" + short(callee(ds[0][3]) or "?"), ()
    if len(ds) != 1 or ds[0][0] != "s" or ds[0][4][1]:
        return local, ()
    rv = ds[0][3]
    p = None
    if rv[0] == "use" and rv[1][0] in ("c", "m"):
        p = rv[1][1]
    elif rv[0] == "ref":
        p = rv[2]
    if p is not None:
        fs = _proj_fields(p[1])
        if fs is not None:
            r, path = _root_of(body, p[0], depth + 1)
            return r, path + fs
    return local, ()


def discr_root(body, switch_block):
    """if the switch tests discriminant(P) with P = root local + derefs/fields, return ((root, fieldpath), enum type)"""
    t = body.term(switch_block)
    if t["k"] != "switch":
        return None
    l = op_local(t["d"])
    if l is None:
        return None
    ds = body.defs().get(l, [])
    if len(ds) != 1 or ds[0][0] != "s" or ds[0][3][0] != "discr":
        return None
    p = ds[0][3][1]
    fs = _proj_fields(p[1])
    if fs is None:
        return None
    r, path = _root_of(body, p[0])
    r, path = _through_tuples(body, r, path + fs)
    return (r, path), ds[0][3][2]


def _through_tuples(body, r, path, depth=0):
    """(tuple local, ('0', ...)) -> root of the tuple's operand 0"""
    while depth < 6 and isinstance(r, int) and path and path[0].isdigit():
        ds = body.defs().get(r, [])
        if len(ds) != 1 or ds[0][0] != "s" or ds[0][3][0] != "agg" or ds[0][3][1][0] != "tuple":
            break
        ops = ds[0][3][2]
        i = int(path[0])
        if i >= len(ops):
            break
        l = op_local(ops[i])
        if l is None:
            break
        pl = op_place(ops[i])
        fs = _proj_fields(pl[1])
        if fs is None:
            break
        r2, p2 = _root_of(body, l)
        r, path = r2, p2 + fs + path[1:]
        depth += 1
    return r, path


def reach_under(body, assume):
    """assume: {(root local, field path tuple) or root local: discriminant value string}"""
    seen = {0}
    dq = deque([0])
    while dq:
        b = dq.popleft()
        t = body.term(b)
        succ = body.succ(b)
        if t["k"] == "switch":
            dr = discr_root(body, b)
            if dr and (dr[0] in assume or (dr[0][1] == () and dr[0][0] in assume)):
                want = assume[dr[0]] if dr[0] in assume else assume[dr[0][0]]
                vals = dict(t["ts"])
                succ = [vals[want]] if want in vals else [t["else"]]
        for s in succ:
            if s not in seen:
                seen.add(s)
                dq.append(s)
    return seen


def variants_reaching(body, param_local, variants, block):
    """names of the variants of the parameter under which `block` stays reachable"""
    return [name for name, d in variants if block in reach_under(body, {param_local: d})]


# ----------------------------------------------------------------------------------------------
# three-valued evaluation of boolean predicates over an assumed enum variant

def _assumed(assume, key):
    if key in assume:
        return assume[key]
    if isinstance(key, tuple) and key[1] == () and key[0] in assume:
        return assume[key[0]]
    return None


def eval_bool(F, fid, variant_discr, depth=0, cache=None):
    """possible return values of the predicate `fid(&DataType, ..) -> bool`: subset of {True, False, None}.
    `variant_discr` is either a discriminant string (first parameter assumed) or a dict
    {parameter index (1-based): discriminant}."""
    cache = cache if cache is not None else {}
    pa = variant_discr if isinstance(variant_discr, dict) else {1: variant_discr}
    ck = (fid, tuple(sorted(pa.items(), key=repr)))
    if ck in cache:
        return cache[ck]
    cache[ck] = {None}
    fn = F.resolve(fid)
    if fn is None or "mir" not in fn or depth > 6:
        return {None}
    body = Body(fn)
    assume = dict(pa)
    known = {}
    # constants and resolvable predicate calls
    from .mirlib import callee
    for b in range(body.n):
        t = body.term(b)
        if t["k"] == "call" and not t["dest"][1] and t.get("rt") == "bool" and t["args"]:
            sub = {}
            for ai, a in enumerate(t["args"]):
                l = op_local(a)
                if l is None:
                    continue
                r, path = _root_of(body, l)
                v = _assumed(assume, (r, path))
                if v is not None:
                    sub[ai + 1] = v
            cn_ = callee(t) or ""
            if len(sub) == 2 and ("PartialEq" in cn_) and cn_.endswith("::eq") and sub[1] != sub[2]:
                known[b] = False
                continue
            if len(sub) == 2 and ("PartialEq" in cn_) and cn_.endswith("::ne") and sub[1] != sub[2]:
                known[b] = True
                continue
            if sub:
                res = eval_bool(F, callee(t), sub, depth + 1, cache)
                if len(res) == 1 and None not in res:
                    known[b] = next(iter(res))
    # flow-sensitive constant propagation of bool locals along the pruned CFG
    state_in = {0: {}}
    work = deque([0])
    rets = set()
    ret_assigned = {}
    visits = 0
    while work and visits < 20000:
        visits += 1
        b = work.popleft()
        st = dict(state_in[b])
        for s_ in body.stmts(b):
            if s_[0] != "a" or s_[1][1]:
                continue
            dst = s_[1][0]
            rv = s_[2]
            val = None
            _is_ret = dst == 0
            if rv[0] == "use" and rv[1][0] == "k" and rv[1][1] in ("true", "false"):
                val = rv[1][1] == "true"
            elif rv[0] == "use" and op_local(rv[1]) is not None and not op_place(rv[1])[1] and op_local(rv[1]) in st:
                val = st[op_local(rv[1])]
            elif rv[0] == "un" and rv[1] == "Not" and op_local(rv[2]) in st:
                val = not st[op_local(rv[2])]
            if val is None:
                st.pop(dst, None)
            else:
                st[dst] = val
            if _is_ret:
                ret_assigned.setdefault((b, id(s_)), set()).add(val)
        t = body.term(b)
        succ = body.succ(b)
        if t["k"] == "call" and not t["dest"][1]:
            d = t["dest"][0]
            if b in known:
                st[d] = known[b]
            else:
                st.pop(d, None)
            if d == 0:
                ret_assigned.setdefault((b, "t"), set()).add(known.get(b))
        elif t["k"] == "switch":
            dr = discr_root(body, b)
            bs = body.bool_switch(b)
            if dr and _assumed(assume, dr[0]) is not None:
                want = _assumed(assume, dr[0])
                vals = dict(t["ts"])
                succ = [vals[want]] if want in vals else [t["else"]]
            elif bs and op_local(bs[0]) in st:
                succ = [bs[1]] if st[op_local(bs[0])] else [bs[2]]
        elif t["k"] == "return":
            rets.add(st.get(0, None))
        for x in succ:
            if x not in state_in:
                state_in[x] = dict(st)
                work.append(x)
            else:
                old = state_in[x]
                new_ = {k: v for k, v in old.items() if st.get(k, "?") == v}
                if new_ != old:
                    state_in[x] = new_
                    work.append(x)
    # the value of _0: per assignment site, the values seen over all visits (a site visited with both a
    # known and an unknown state counts as unknown)
    out = set()
    for k, vals in ret_assigned.items():
        out |= ({None} if None in vals else vals)
    if not out:
        out = rets
    cache[ck] = out or {None}
    return cache[ck]


def supported_under(body, assume):
    """Does the dispatch on the assumed value route to an implementation?  True if a successful exit is
    reachable *downstream of a switch resolved by the assumption*; False if only rejecting exits are;
    None if no switch was resolved (the function does not dispatch on the assumed roots)."""
    from . import flow
    seen = {0}
    dq = deque([0])
    chosen = []
    while dq:
        b = dq.popleft()
        t = body.term(b)
        succ = body.succ(b)
        if t["k"] == "switch":
            dr = discr_root(body, b)
            if dr and _assumed(assume, dr[0]) is not None:
                want = _assumed(assume, dr[0])
                vals = dict(t["ts"])
                succ = [vals[want]] if want in vals else [t["else"]]
                chosen.append((b, succ[0]))
        for s in succ:
            if s not in seen:
                seen.add(s)
                dq.append(s)
    if not chosen:
        return None
    oks = set(flow.ok_exits(body)) & seen
    for (b, tgt) in chosen:
        down = set()
        dq = deque([tgt])
        down.add(tgt)
        while dq:
            x = dq.popleft()
            for s in body.succ(x):
                if s in seen and s not in down:
                    # respect the pruning: only follow edges that reach_under kept
                    down.add(s)
                    dq.append(s)
        if oks & down:
            # make sure this is not merely the shared return block: an ok exit is an assignment block
            return True
    return False
