"""PAIR — a (buffer, bit offset) argument pair must come from one and the same object.

`f(x.inner(), y.offset(), ..)` with x != y reads the bits of one array at the position of another: it
is correct for unsliced inputs and wrong exactly when the two inputs are sliced differently."""
import re
from . import flow, dtm
from .mirlib import Body, callee, op_local
from .mirlib import op_place as op_place_

BUF_GETTERS = {"inner", "buffer", "values", "validity"}
OFF_GETTERS = {"offset", "bit_offset"}


def obj_root(b, l, depth=0):
    """the local an object reference ultimately denotes (through copies, reborrows and derefs); call results are
    identified by their own destination local, so two different calls to the same getter are different objects"""
    ds = b.defs().get(l, [])
    if len(ds) != 1 or depth > 10 or ds[0][0] != "s" or ds[0][4][1]:
        return l
    rv = ds[0][3]
    p = rv[1][1] if rv[0] == "use" and rv[1][0] in ("c", "m") else (rv[2] if rv[0] == "ref" else None)
    if p is not None and all(e == "*" for e in p[1]):
        return obj_root(b, p[0], depth + 1)
    if p is not None:
        # field projection: identify by (root, field path)
        from .dtm import _proj_fields
        fs = _proj_fields(p[1])
        if fs is not None:
            return (obj_root(b, p[0], depth + 1), fs)
    return l


def getter_of(b, l, depth=0):
    ds = b.defs().get(l, [])
    if depth > 6:
        return None
    if len(ds) > 1:
        # a value merged from several arms (`match x { Some(n) => Some(n.validity()), None => None }`): the arms that produce a getter must agree
        got = set()
        for d in ds:
            if d[0] == "s" and d[3][0] == "agg" and d[3][1][0] == "adt" and d[3][1][3] == "None":
                continue
            if d[0] == "s":
                g = _getter_of_def(b, d, depth)
                got.add(g)
            else:
                got.add(None)
        return got.pop() if len(got) == 1 else None
    if len(ds) != 1:
        return None
    return _getter_of_def(b, ds[0], depth)


def _getter_of_def(b, d, depth):
    if d[0] == "s" and d[3][0] == "use":
        # a field of a tuple built in (possibly several) arms: follow that component of every arm
        p = op_place_(d[3][1])
        if p is not None and len(p[1]) == 1 and isinstance(p[1][0], list) and p[1][0][0] == "f":
            k = p[1][0][1]
            tds = b.defs().get(p[0], [])
            if tds and all(x[0] == "s" and x[3][0] == "agg" and x[3][1][0] == "tuple" and len(x[3][2]) > k for x in tds):
                got = set()
                for x in tds:
                    ol = op_local(x[3][2][k])
                    if ol is None:
                        continue        # a constant component (None / 0)
                    # `None` aggregates in an arm carry no getter
                    ods = b.defs().get(ol, [])
                    if len(ods) == 1 and ods[0][0] == "s" and ods[0][3][0] == "agg" and ods[0][3][1][0] == "adt" and ods[0][3][1][3] == "None":
                        continue
                    got.add(getter_of(b, ol, depth + 1))
                return got.pop() if len(got) == 1 else None
    if d[0] == "call":
        t = d[3]
        if len(t["args"]) == 1:
            rl = op_local(t["args"][0])
            if rl is None:
                return None
            return (flow.norm(callee(t) or "").split("::")[-1], obj_root(b, rl))
        return None
    if d[0] == "s" and d[3][0] in ("use", "ref"):
        p = d[3][1][1] if d[3][0] == "use" and d[3][1][0] in ("c", "m") else (d[3][2] if d[3][0] == "ref" else None)
        if p is not None and all(e == "*" for e in p[1]):
            return getter_of(b, p[0], depth + 1)
    if d[0] == "s" and d[3][0] == "agg" and d[3][1][0] == "adt" and d[3][1][3] == "Some" and len(d[3][2]) == 1:
        l2 = op_local(d[3][2][0])          # Some(x.validity())
        if l2 is not None:
            return getter_of(b, l2, depth + 1)
    return None


def check(ck, F, rule, crates, floor):
    ck.rule(rule, "whenever a call receives `X.inner()/buffer()/values()` immediately followed by `Y.offset()`, X and Y are the same object", floor)
    for cn in crates:
        for fn in F.crate(cn).fns:
            if "mir" not in fn:
                continue
            b = Body(fn)
            for bb, t in b.calls():
                args, aty = t["args"], t.get("aty", [])
                for i in range(len(args) - 1):
                    if i + 1 >= len(aty) or aty[i + 1] != "usize" or not re.search(r"Buffer|\[u8\]", aty[i]):
                        continue
                    l0, l1 = op_local(args[i]), op_local(args[i + 1])
                    if l0 is None or l1 is None:
                        continue
                    g0, g1 = getter_of(b, l0), getter_of(b, l1)
                    if not (g0 and g1 and g0[0] in BUF_GETTERS and g1[0] in OFF_GETTERS):
                        continue
                    key = "%s -> %s#%d" % (flow.norm(fn["id"]), flow.norm(callee(t) or "").split("::")[-1], i)
                    if g0[1] == g1[1]:
                        ck.ok(rule, key, "buffer and offset from the same object")
                    else:
                        ck.bad(rule, key, "%s passes the buffer of one object with the bit offset of another (%s vs %s): wrong bits are read whenever the two are sliced differently"
                               % (fn["id"], g0, g1), b.loc(bb))


# callee (generic-stripped suffix) -> [(buffer argument index, bit-offset argument index)]
CROSS = {
    "bit_mask::set_bits": [(0, 2), (1, 3)],
    "bit_iterator::try_for_each_valid_idx": [(3, 1)],
    "bit_util::get_bit": [(0, 1)],          # get_bit(x.validity(), i): i must include x.offset()
    "bit_util::get_bit_raw": [(0, 1)],
}


def check_cross(ck, F, rule, crates, floor):
    ck.rule(rule, "for bit-copy helpers taking (write buffer, read buffer, write offset, read offset): an `X.offset()` argument sits in the offset slot that "
            "belongs to the slot holding X's buffer (a swapped pair reads the source at the destination's position)", floor)
    for cn in crates:
        for fn in F.crate(cn).fns:
            if "mir" not in fn:
                continue
            b = Body(fn)
            for bb, t in b.calls():
                n = flow.norm(callee(t) or "")
                spec = None
                for k, v in CROSS.items():
                    if n == k or n.endswith("::" + k):
                        spec = v
                if not spec:
                    continue
                gs = []
                for a in t["args"]:
                    l = op_local(a)
                    gs.append(getter_of(b, l) if l is not None else None)
                key = "%s -> %s" % (flow.norm(fn["id"]), n.split("::")[-1])
                bad = None
                judged = False
                for bi, oi in spec:
                    if bi >= len(gs) or gs[bi] is None or gs[bi][0] not in BUF_GETTERS:
                        continue
                    obj = gs[bi][1]
                    for p, g in enumerate(gs):
                        if g and g[0] in OFF_GETTERS and g[1] == obj:
                            judged = True
                            if p != oi:
                                bad = "offset of the object whose buffer is argument %d is passed as argument %d, expected %d" % (bi, p, oi)
                    if oi < len(gs) and gs[oi] and gs[oi][0] in OFF_GETTERS and gs[oi][1] != obj:
                        judged = True
                        bad = "argument %d is the offset of a different object than the buffer in argument %d" % (oi, bi)
                    # the offset slot of a buffer obtained from an object with a bit offset must be computed from that object's offset
                    if oi < len(t["args"]):
                        lo = op_local(t["args"][oi])
                        derived = False
                        if lo is not None:
                            seen_, calls_ = b.back_slice(lo)
                            for _, c_ in calls_:
                                if flow.norm(callee(c_) or "").split("::")[-1] in OFF_GETTERS and len(c_["args"]) == 1:
                                    rl = op_local(c_["args"][0])
                                    if rl is not None and obj_root(b, rl) == obj:
                                        derived = True
                        judged = True
                        if not derived and not bad:
                            bad = "the bit offset passed for the buffer in argument %d (argument %d) is not computed from that object's offset()" % (bi, oi)
                if bad:
                    ck.bad(rule, key, "%s: %s" % (fn["id"], bad), b.loc(bb))
                elif judged:
                    ck.ok(rule, key, "buffer/offset slots agree")
                else:
                    ck.ok(rule, key, "arguments are not getter pairs (not judged)", nontrivial=False)


# ---------------------------------------------------------------------------------------------------------
# a window into the child of an offset-bearing parent (List / LargeList / Map / RunEndEncoded) is positioned by
# the parent's offsets, never by a constant: `list.values()` is the WHOLE child, a sliced parent starts at
# offsets[0] != 0.
CHILD_GETTERS = re.compile(r"(GenericListArray|MapArray|RunArray|GenericListViewArray)(::<[^>]*>)?::(values|entries|keys)$")


def _child_getter(b, l, depth=0):
    """call term that produced the receiver `l` if that is `<offset-bearing parent>.values()`"""
    ds = b.defs().get(l, [])
    if len(ds) != 1 or depth > 6:
        return None
    d = ds[0]
    if d[0] == "call":
        n = callee(d[3]) or ""
        if CHILD_GETTERS.search(n):
            return d[3]
        if n.split("::")[-1] in ("deref", "as_ref", "borrow", "clone") and d[3]["args"]:
            l2 = op_local(d[3]["args"][0])
            return _child_getter(b, l2, depth + 1) if l2 is not None else None
        return None
    if d[0] == "s" and d[3][0] in ("use", "ref"):
        p = d[3][1][1] if d[3][0] == "use" and d[3][1][0] in ("c", "m") else (d[3][2] if d[3][0] == "ref" else None)
        if p is not None and all(e == "*" for e in p[1]):
            return _child_getter(b, p[0], depth + 1)
    return None


def check_child_window(ck, F, rule, crates, floor):
    ck.rule(rule, "`parent.values().slice(start, len)` on the child of a List / LargeList / Map / ListView / RunEndEncoded parent takes `start` from the parent's "
            "offsets (a computed value), not from a constant: the child is shared and unsliced, a sliced parent's first offset is not 0", floor)
    for cn in crates:
        for fn in F.crate(cn).fns:
            if "mir" not in fn or fn.get("test"):
                continue
            b = Body(fn)
            for bb, t in b.calls():
                n = callee(t) or ""
                if not n.endswith("::slice") or len(t["args"]) != 3:
                    continue
                rl = op_local(t["args"][0])
                g = _child_getter(b, rl) if rl is not None else None
                if g is None:
                    continue
                key = "%s -> %s.slice" % (fn["id"], (callee(g) or "").split("::")[-1])
                from .mirlib import op_const
                if op_const(t["args"][1]) is not None:
                    ck.bad(rule, key, "%s: the child array of %s is sliced from the constant position %s; for a sliced parent the first element lives at the parent's first offset" % (
                        fn["id"], flow.norm(callee(g) or ""), op_const(t["args"][1])), b.loc(bb))
                else:
                    ck.ok(rule, key, "start is a computed value")


# ---------------------------------------------------------------------------------------------------------
# belief consistency on the inline-view threshold: a view of length L is stored inline iff L <= MAX_INLINE_VIEW_LEN (12).
# Every comparison against the named constant states a belief about L == 12; `x > MAX` / `x <= MAX` say "12 is inline",
# `x >= MAX` / `x < MAX` say the opposite.  One site contradicting the others reads an inline view as a buffer reference or vice versa.
THRESHOLD_EXEMPT = {
    ("arrow_data::byte_view::validate_view_impl", "Lt"): "padding check: only views SHORTER than 12 bytes have padding bits to test (inside the `len <= MAX` branch)",
}


def _named_const(b, op, name, depth=0):
    from .mirlib import op_const
    k = op_const(op)
    if k is not None:
        return str(k[0] if isinstance(k, (list, tuple)) else k).endswith(name)
    l = op_local(op)
    if l is None or depth > 3:
        return False
    ds = b.defs().get(l, [])
    if len(ds) == 1 and ds[0][0] == "s":
        rv = ds[0][3]
        if rv[0] == "cast":
            return _named_const(b, rv[2], name, depth + 1)
        if rv[0] == "use":
            return _named_const(b, rv[1], name, depth + 1)
    if len(ds) == 1 and ds[0][0] == "call" and len(ds[0][3]["args"]) == 1 and (callee(ds[0][3]) or "").split("::")[-1] in ("as_usize", "into", "from"):
        return _named_const(b, ds[0][3]["args"][0], name, depth + 1)
    return False


def check_threshold(ck, F, rule, crates, floor, const="::MAX_INLINE_VIEW_LEN"):
    ck.rule(rule, "every comparison of a view length with MAX_INLINE_VIEW_LEN treats a 12-byte value as inline (`len > MAX` / `len <= MAX`); a `>=` or `<` states the "
            "opposite belief about the same layout and reads the 12 data bytes as (buffer index, offset) or the reverse", floor)
    for cn in crates:
        for fn in F.crate(cn).fns:
            if "mir" not in fn:
                continue
            b = Body(fn)
            for bl in range(b.n):
                for s in b.stmts(bl):
                    if s[0] != "a" or s[2][0] != "bin" or s[2][1] not in ("Gt", "Ge", "Lt", "Le"):
                        continue
                    op = s[2][1]
                    left, right = _named_const(b, s[2][2], const), _named_const(b, s[2][3], const)
                    if left == right:
                        continue
                    if left:   # MAX op x  ==  x flipped-op MAX
                        op = {"Gt": "Lt", "Lt": "Gt", "Ge": "Le", "Le": "Ge"}[op]
                    root = flow.norm(fn.get("parent") or fn["id"]) if fn["kind"] == "Closure" else flow.norm(fn["id"])
                    while "::{closure" in root:
                        root = root[:root.rindex("::{closure")]
                    key = "%s %s" % (root, op)
                    if op in ("Gt", "Le"):
                        ck.ok(rule, key, "12 is inline")
                    elif (root, op) in THRESHOLD_EXEMPT:
                        ck.ok(rule, key, "exempt: " + THRESHOLD_EXEMPT[(root, op)])
                    else:
                        ck.bad(rule, key, "%s compares a view length with MAX_INLINE_VIEW_LEN using %s: a 12-byte value is treated as NOT inline here, while every other "
                               "site (and the format) stores it inline" % (fn["id"], {"Ge": ">=", "Lt": "<"}[op]), b.loc(bl))
