"""PRECONDITION RATCHET — a call that was only reached when a condition held is still only reached when it holds.

For every function and closure in scope, and every callee it calls (plumbing and pure accessors excluded), the set of *dominating
condition edges* is recorded from the reference tree: a boolean test `S` (a comparison between two named quantities, or a boolean call
on a named receiver such as `is_empty(data_buffers(left))`), together with the outcome (true / false), such that every path from the
function's entry to every call site of that callee takes that outcome of `S`.  This is the precondition under which the callee runs,
independently of how it is spelled: `if a && b { f() }`, `if !(a && b) { slow } else { f() }`, `if !a { return slow }; if !b { return
slow }; f()` and a `match (a, b)` all give {a, b}.

`a && b` weakened to `a || b` (the fast path that needs *both* views inline is taken when either is), a guard dropped, or a call hoisted
out of its guard, leaves the tests in the function but they no longer dominate the call.  Reported only when the function still makes
the same number of calls to that callee and still branches on that very condition somewhere; renamed operands, a restructured function
(new helper, different number of call sites) are not comparable."""
import json, os, re
from . import flow
from .mirlib import Body, callee, op_local, op_const
from .relations import name_of, _names
from .mustpass import NOISE, GETTERS, short

TABLE = os.path.join(os.path.dirname(__file__), "tables", "guards.json")
NEG = {"Lt": "Ge", "Ge": "Lt", "Le": "Gt", "Gt": "Le", "Eq": "Ne", "Ne": "Eq"}
MIRROR = {"Lt": "Gt", "Gt": "Lt", "Le": "Ge", "Ge": "Le", "Eq": "Eq", "Ne": "Ne"}
SYM = {"Lt": "<", "Le": "<=", "Gt": ">", "Ge": ">=", "Eq": "==", "Ne": "!="}
EXTRA_SCOPE = {"C10": ["arrow_cmp::"], "C02": ["arrow_cmp::"]}


def gname(b, op, names, depth=0):
    """name of an operand: relations.name_of, extended with `callee(receiver)` for any call on a nameable receiver"""
    n = name_of(b, op, names)
    if n or depth > 3:
        return n
    l = op_local(op)
    if l is None:
        return None
    ds = b.defs().get(l, [])
    if len(ds) != 1:
        return None
    d = ds[0]
    if d[0] == "call":
        t = d[3]
        cn = (callee(t) or "").split("::")[-1]
        if not cn or not t["args"]:
            return None
        inner = gname(b, t["args"][0], names, depth + 1)
        return "%s(%s)" % (cn, inner) if inner else None
    rv = d[3]
    if rv[0] == "use":
        return gname(b, rv[1], names, depth + 1)
    if rv[0] == "ref":
        return gname(b, ["c", rv[2]], names, depth + 1)
    if rv[0] == "cast":
        return gname(b, rv[2], names, depth + 1)
    return None


def cond_of(b, op, names, pol=True, depth=0):
    """(base, text) of the boolean operand `op` having the value `pol`, or None when it cannot be named"""
    if depth > 4:
        return None
    l = op_local(op)
    if l is None:
        return None
    ds = b.defs().get(l, [])
    if len(ds) != 1:
        return None
    d = ds[0]
    if d[0] == "call":
        t = d[3]
        cn = (callee(t) or "").split("::")[-1]
        if not t["args"] or not cn:
            return None
        if cn == "not" and len(t["args"]) == 1:
            return cond_of(b, t["args"][0], names, not pol, depth + 1)
        inner = gname(b, t["args"][0], names)
        if not inner:
            return None
        rest = []
        for a in t["args"][1:]:
            r = gname(b, a, names)
            rest.append(r or "_")
        base = "%s(%s)" % (cn, ", ".join([inner] + rest))
        return base, ("" if pol else "!") + base
    rv = d[3]
    if rv[0] == "un" and rv[1] == "Not":
        return cond_of(b, rv[2], names, not pol, depth + 1)
    if rv[0] == "use":
        return cond_of(b, rv[1], names, pol, depth + 1)
    if rv[0] == "bin" and rv[1] in NEG:
        a, c = gname(b, rv[2], names), gname(b, rv[3], names)
        if not a or not c or a == c:
            return None
        rel = rv[1] if pol else NEG[rv[1]]
        if a > c:
            a, c, rel = c, a, MIRROR[rel]
        oty = rv[4] if len(rv) > 4 else ""
        if isinstance(oty, str) and re.match(r"^(u8|u16|u32|u64|u128|usize)$", oty) and "0" in (a, c):
            # unsigned against zero: `x > 0` is `x != 0`, `x <= 0` is `x == 0`
            zero_first = (a == "0")
            if rel in ("Gt", "Lt", "Ne") and ((rel == "Gt" and not zero_first) or (rel == "Lt" and zero_first) or rel == "Ne"):
                rel = "Ne"
            elif (rel == "Le" and not zero_first) or (rel == "Ge" and zero_first) or rel == "Eq":
                rel = "Eq"
        return "%s ~ %s" % (a, c), "%s %s %s" % (a, SYM[rel], c)
    return None


def function_guards(fn):
    """({callee: (number of call sites, sorted conditions dominating all of them)}, set of condition bases branched on anywhere)"""
    b = Body(fn)
    if b.n > 600:
        return None, None
    names = _names(b)
    reach = b.reachable(0)
    edges = []          # (switch block, target, text, base)
    bases = set()
    for s in range(b.n):
        if s not in reach:
            continue
        bs = b.bool_switch(s)
        if not bs:
            continue
        d, tt, ft = bs
        if tt == ft:
            continue
        for pol, tgt in ((True, tt), (False, ft)):
            c = cond_of(b, d, names, pol)
            if c:
                bases.add(c[0])
                edges.append((s, tgt, c[1], c[0]))
    sites = {}
    for bl, t in b.calls():
        if bl not in reach:
            continue
        n = callee(t) or ""
        if not n or NOISE.search(n) or n.split("::")[-1] in GETTERS:
            continue
        sites.setdefault(short(n), []).append(bl)
    if not edges or not sites:
        return {}, bases
    domby = {}          # edge index -> blocks not reachable without it
    for i, (s, tgt, _txt, _base) in enumerate(edges):
        r = b.reachable(0, removed_edges=[(s, tgt)])
        domby[i] = reach - r if isinstance(reach, (set, frozenset)) else set(reach) - set(r)
    out = {}
    for cn, bls in sites.items():
        conds = None
        for bl in bls:
            cs = {(edges[i][2], edges[i][3]) for i in domby if bl in domby[i]}
            conds = cs if conds is None else (conds & cs)
        if conds:
            out[cn] = [len(bls), sorted(list(c) for c in conds)]
    return out, bases


def build_table(F, crates):
    tab = {}
    for cn in crates:
        for fn in F.crate(cn).fns:
            if "mir" not in fn:
                continue
            g, _ = function_guards(fn)
            if g:
                tab[flow.norm(fn["id"])] = g
    return tab


def scope(pid):
    from .influence import SCOPE
    return list(SCOPE[pid][0]) + EXTRA_SCOPE.get(pid, [])


def check(ck, F, rule, prefixes, floor):
    tab = json.load(open(TABLE))
    ck.rule(rule, "every condition (comparison of two named quantities, or boolean call on a named receiver, with its outcome) that dominated all call sites of a callee "
            "in a function on the reference tree still dominates them: a precondition of a fast path weakened from `a && b` to `a || b`, a dropped guard or a call "
            "hoisted out of its guard is reported when the function still tests that condition and still calls the callee as often", floor)
    for fid, ref in sorted(tab.items()):
        if not any(fid.lstrip("<").startswith(p) for p in prefixes):
            continue
        fn = F.resolve(fid)
        if fn is None or "mir" not in fn:
            continue
        if flow.calls_new_function(F, fn):
            for cn in ref:
                ck.ok(rule, "%s#%s" % (fid, cn), "not compared: the function now calls a helper that did not exist on the reference tree", nontrivial=False)
            continue
        cur, bases = function_guards(fn)
        if cur is None:
            continue
        b = Body(fn)
        counts = {}
        for _bl, t in b.calls():
            n = callee(t) or ""
            if n:
                counts[short(n)] = counts.get(short(n), 0) + 1
        for cn, (nsites, conds) in sorted(ref.items()):
            key = "%s#%s" % (fid, cn)
            if counts.get(cn, 0) != nsites:
                ck.ok(rule, key, "called a different number of times: not comparable", nontrivial=False)
                continue
            have = {c[0] for c in cur.get(cn, [0, []])[1]}
            lost = [c[0] for c in conds if c[0] not in have and c[1] in bases]
            if lost:
                ck.bad(rule, key, "in %s every call of `%s` was reached only when %s held; the function still tests %s but the call no longer depends on it (a weakened "
                       "`&&`, a dropped guard or a hoisted call)" % (fid, cn, " and ".join("`%s`" % c[0] for c in conds), ", ".join("`%s`" % c for c in lost)),
                       "%s:%s" % (fn["file"], fn["line"]))
            else:
                ck.ok(rule, key, "guarded by %s" % [c[0] for c in conds], nontrivial=False)


def run(ck, F, pid):
    check(ck, F, "%s.precondition-kept" % pid, scope(pid), FLOORS.get(pid, 0))


FLOORS = {'C01': 638, 'C02': 266, 'C03': 389, 'C04': 116, 'C07': 267, 'C08': 924, 'C09': 337, 'C10': 152, 'C11': 108, 'C12': 128, 'C13': 168, 'C14': 160, 'C16': 342, 'C18': 297}
