"""FLOW — path rules over MIR bodies (must-pass-through, guarded-by, rejecting exits)."""
import re
from .mirlib import Body, callee, callee_names, op_place, op_local, op_const, operand_locals, rvalue_operands, rvalue_locals
from . import disc


def norm(name):
    """strip generic argument lists: a::B::<T>::f -> a::B::f"""
    out, depth = [], 0
    i = 0
    while i < len(name):
        ch = name[i]
        if ch == "<" and (i >= 2 and name[i - 2:i] == "::"):
            # generic args after ::
            depth += 1
            # remove the preceding '::'
            if depth == 1:
                del out[-2:]
            i += 1
            continue
        if depth > 0:
            if ch == "<":
                depth += 1
            elif ch == ">":
                depth -= 1
            i += 1
            continue
        out.append(ch)
        i += 1
    return "".join(out)


def matcher(spec):
    """spec: str (suffix match on the generic-stripped name), regex (compiled), callable, or list of those"""
    if callable(spec) and not hasattr(spec, "search"):
        return spec
    if isinstance(spec, (list, tuple, set)):
        ms = [matcher(s) for s in spec]
        return lambda n: any(m(n) for m in ms)
    if hasattr(spec, "search"):
        return lambda n: bool(spec.search(n)) or bool(spec.search(norm(n)))
    s = spec

    def m(n):
        nn = norm(n)
        return n == s or nn == s or nn.endswith("::" + s) or n.endswith("::" + s)
    return m


def call_matches(term, spec):
    m = matcher(spec)
    return any(m(n) for n in callee_names(term))


def call_blocks(body, spec):
    m = matcher(spec)
    return [b for b, t in body.calls() if any(m(n) for n in callee_names(t))]


def returns_result(body):
    return body.locals[0].startswith("std::result::Result<")


def ok_exits(body):
    """blocks that complete a *successful* return: `_0 = Ok(..)`, or a call whose destination is _0
    (delegation; from_residual excluded), or – for functions not returning Result – the return blocks.
    Also `_0 = move _x` where _x: Result (returning a stored result) counts as (possibly) successful."""
    if not returns_result(body):
        return body.return_blocks()
    out = []
    for b in range(body.n):
        for s in body.stmts(b):
            if s[0] == "a" and s[1][0] == 0 and not s[1][1]:
                rv = s[2]
                if rv[0] == "agg" and rv[1][0] == "adt" and rv[1][1] == "std::result::Result":
                    if rv[1][3] == "Ok":
                        out.append(b)
                elif rv[0] == "use":
                    out.append(b)
        t = body.term(b)
        if t["k"] == "call" and t["dest"][0] == 0 and not t["dest"][1]:
            n = callee(t) or ""
            if "from_residual" not in n:
                out.append(b)
    return sorted(set(out))


def err_exits(body):
    out = []
    for b in range(body.n):
        for s in body.stmts(b):
            if s[0] == "a" and s[1][0] == 0 and not s[1][1]:
                rv = s[2]
                if rv[0] == "agg" and rv[1][0] == "adt" and rv[1][3] == "Err":
                    out.append(b)
        t = body.term(b)
        if t["k"] == "call" and t["dest"][0] == 0 and "from_residual" in (callee(t) or ""):
            out.append(b)
    return sorted(set(out))


def kept_call_blocks(body, spec):
    """call blocks matching spec whose Result (if any) is not discarded."""
    out = []
    for b in call_blocks(body, spec):
        t = body.term(b)
        if t["k"] != "call":
            continue
        if disc.result_err_type(t.get("rt", "")) is not None and not t["dest"][1]:
            fate, why = disc.classify(body, t["dest"][0])
            if fate == "discarded":
                continue
        out.append(b)
    return out


def success_passes(body, spec, exits=None):
    """Every path entry -> successful exit passes the *normal-return edge* of a call matching spec
    whose result is kept.  Returns (ok, offending_exit_blocks, through_blocks)."""
    through = kept_call_blocks(body, spec)
    exits = ok_exits(body) if exits is None else exits
    reach = body.reachable(0, removed_blocks=through)
    bad = [e for e in exits if e in reach and e not in through]
    return (not bad and bool(exits)), bad, through


def none_after(body, first_spec, later_spec, exits=None):
    """After passing a `first_spec` call on the way to a successful exit, no `later_spec` call is
    passed without another `first_spec` call following it.  Returns list of offending later blocks."""
    firsts = kept_call_blocks(body, first_spec)
    laters = call_blocks(body, later_spec)
    exits = ok_exits(body) if exits is None else exits
    bad = []
    for l in laters:
        if l in firsts:
            continue
        # l reachable from some first's successor...
        after_first = any(l in body.reachable(s, removed_blocks=[]) for f in firsts for s in body.succ(f))
        if not after_first:
            continue
        # ...and from l a successful exit is reachable avoiding all firsts
        r = set()
        for s in body.succ(l):
            r |= body.reachable(s, removed_blocks=firsts)
        if any(e in r for e in exits):
            # only a problem if l is itself only reachable after a first (i.e. not merely a loop before)
            bad.append(l)
    return bad


def guard_edges(body, cond_pred):
    """find boolean switches whose discriminant derives (backward slice) from a call satisfying
    cond_pred(term).  yields (switch_block, true_target, false_target, negated)"""
    for b in range(body.n):
        bs = body.bool_switch(b)
        if bs is None:
            continue
        d, tt, ft = bs
        l = op_local(d)
        if l is None:
            continue
        # follow Not
        neg = False
        seen, calls = body.back_slice(l)
        hit = [t for (_, t) in calls if cond_pred(t)]
        if not hit:
            continue
        # count negations along single-def chain
        cur = l
        for _ in range(8):
            ds = body.defs().get(cur, [])
            if len(ds) != 1 or ds[0][0] != "s":
                break
            rv = ds[0][3]
            if rv[0] == "un" and rv[1] == "Not":
                neg = not neg
                cur = op_local(rv[2])
            elif rv[0] == "use":
                cur = op_local(rv[1])
            else:
                break
            if cur is None:
                break
        yield b, tt, ft, neg


def dominated_by_edge(body, edge, block):
    return body.edge_dominates(edge, block)


def field_stores(body, field_name=None):
    """assignments through a place that ends in field `field_name`: yields (b, i, stmt)"""
    for b in range(body.n):
        for i, s in enumerate(body.stmts(b)):
            if s[0] != "a":
                continue
            proj = s[1][1]
            if not proj:
                continue
            last = [e for e in proj if isinstance(e, list) and e[0] == "f"]
            if last and (field_name is None or last[-1][2] == field_name):
                yield b, i, s


def self_field_of_place(place):
    """for places rooted at _1 (self): the first field name projected, else None"""
    if place[0] != 1:
        return None
    for e in place[1]:
        if isinstance(e, list) and e[0] == "f":
            return e[2]
    return None
