"""FLOW — path rules over MIR bodies (must-pass-through, guarded-by, rejecting exits)."""
import re
from .mirlib import Body, callee, callee_names, op_place, op_local, op_const, operand_locals, rvalue_operands, rvalue_locals
from . import disc


def norm(name):
    """strip generic argument lists: a::B::<T>::f -> a::B::f"""
    out, depth = [], 0
    i = 0
    while i < len(name):
        ch = name[i]
        if ch == "<" and (i >= 2 and name[i - 2:i] == "::"):
            # generic args after ::
            depth += 1
            # remove the preceding '::'
            if depth == 1:
                del out[-2:]
            i += 1
            continue
        if depth > 0:
            if ch == "<":
                depth += 1
            elif ch == ">":
                depth -= 1
            i += 1
            continue
        out.append(ch)
        i += 1
    return "".join(out)


def matcher(spec):
    """spec: str (suffix match on the generic-stripped name), regex (compiled), callable, or list of those"""
    if callable(spec) and not hasattr(spec, "search"):
        return spec
    if isinstance(spec, (list, tuple, set)):
        ms = [matcher(s) for s in spec]
        return lambda n: any(m(n) for m in ms)
    if hasattr(spec, "search"):
        return lambda n: bool(spec.search(n)) or bool(spec.search(norm(n)))
    s = spec

    def m(n):
        nn = norm(n)
        return n == s or nn == s or nn.endswith("::" + s) or n.endswith("::" + s)
    return m


def call_matches(term, spec):
    m = matcher(spec)
    return any(m(n) for n in callee_names(term))


def call_blocks(body, spec):
    m = matcher(spec)
    return [b for b, t in body.calls() if any(m(n) for n in callee_names(t))]


def returns_result(body):
    return body.locals[0].startswith("std::result::Result<")


def ok_exits(body):
    """blocks that complete a *successful* return: `_0 = Ok(..)`, or a call whose destination is _0
    (delegation; from_residual excluded), or – for functions not returning Result – the return blocks.
    Also `_0 = move _x` where _x: Result (returning a stored result) counts as (possibly) successful."""
    if not returns_result(body):
        return body.return_blocks()
    out = []
    for b in range(body.n):
        for s in body.stmts(b):
            if s[0] == "a" and s[1][0] == 0 and not s[1][1]:
                rv = s[2]
                if rv[0] == "agg" and rv[1][0] == "adt" and rv[1][1] == "std::result::Result":
                    if rv[1][3] == "Ok":
                        out.append(b)
                elif rv[0] == "use":
                    out.append(b)
        t = body.term(b)
        if t["k"] == "call" and t["dest"][0] == 0 and not t["dest"][1]:
            n = callee(t) or ""
            if "from_residual" not in n:
                out.append(b)
    return sorted(set(out))


def err_exits(body):
    out = []
    for b in range(body.n):
        for s in body.stmts(b):
            if s[0] == "a" and s[1][0] == 0 and not s[1][1]:
                rv = s[2]
                if rv[0] == "agg" and rv[1][0] == "adt" and rv[1][3] == "Err":
                    out.append(b)
        t = body.term(b)
        if t["k"] == "call" and t["dest"][0] == 0 and "from_residual" in (callee(t) or ""):
            out.append(b)
    return sorted(set(out))


def kept_call_blocks(body, spec):
    """call blocks matching spec whose Result (if any) is not discarded."""
    out = []
    for b in call_blocks(body, spec):
        t = body.term(b)
        if t["k"] != "call":
            continue
        if disc.result_err_type(t.get("rt", "")) is not None and not t["dest"][1]:
            fate, why = disc.classify(body, t["dest"][0])
            if fate == "discarded":
                continue
        out.append(b)
    return out


def success_passes(body, spec, exits=None):
    """Every path entry -> successful exit passes the *normal-return edge* of a call matching spec
    whose result is kept.  Returns (ok, offending_exit_blocks, through_blocks)."""
    through = kept_call_blocks(body, spec)
    exits = ok_exits(body) if exits is None else exits
    reach = body.reachable(0, removed_blocks=through)
    bad = [e for e in exits if e in reach and e not in through]
    return (not bad and bool(exits)), bad, through


def none_after(body, first_spec, later_spec, exits=None):
    """After passing a `first_spec` call on the way to a successful exit, no `later_spec` call is
    passed without another `first_spec` call following it.  Returns list of offending later blocks."""
    firsts = kept_call_blocks(body, first_spec)
    laters = call_blocks(body, later_spec)
    exits = ok_exits(body) if exits is None else exits
    bad = []
    for l in laters:
        if l in firsts:
            continue
        # l reachable from some first's successor...
        after_first = any(l in body.reachable(s, removed_blocks=[]) for f in firsts for s in body.succ(f))
        if not after_first:
            continue
        # ...and from l a successful exit is reachable avoiding all firsts
        r = set()
        for s in body.succ(l):
            r |= body.reachable(s, removed_blocks=firsts)
        if any(e in r for e in exits):
            # only a problem if l is itself only reachable after a first (i.e. not merely a loop before)
            bad.append(l)
    return bad


def guard_edges(body, cond_pred):
    """find boolean switches whose discriminant derives (backward slice) from a call satisfying
    cond_pred(term).  yields (switch_block, true_target, false_target, negated)"""
    for b in range(body.n):
        bs = body.bool_switch(b)
        if bs is None:
            continue
        d, tt, ft = bs
        l = op_local(d)
        if l is None:
            continue
        # follow Not
        neg = False
        seen, calls = body.back_slice(l)
        hit = [t for (_, t) in calls if cond_pred(t)]
        if not hit:
            continue
        # count negations along single-def chain
        cur = l
        for _ in range(8):
            ds = body.defs().get(cur, [])
            if len(ds) != 1 or ds[0][0] != "s":
                break
            rv = ds[0][3]
            if rv[0] == "un" and rv[1] == "Not":
                neg = not neg
                cur = op_local(rv[2])
            elif rv[0] == "use":
                cur = op_local(rv[1])
            else:
                break
            if cur is None:
                break
        yield b, tt, ft, neg


def dominated_by_edge(body, edge, block):
    return body.edge_dominates(edge, block)


def field_stores(body, field_name=None):
    """assignments through a place that ends in field `field_name`: yields (b, i, stmt)"""
    for b in range(body.n):
        for i, s in enumerate(body.stmts(b)):
            if s[0] != "a":
                continue
            proj = s[1][1]
            if not proj:
                continue
            last = [e for e in proj if isinstance(e, list) and e[0] == "f"]
            if last and (field_name is None or last[-1][2] == field_name):
                yield b, i, s


def self_field_of_place(place):
    """for places rooted at _1 (self): the first field name projected, else None"""
    if place[0] != 1:
        return None
    for e in place[1]:
        if isinstance(e, list) and e[0] == "f":
            return e[2]
    return None


def rv_is_variant(body, rv, variant, depth=0):
    """is the rvalue the enum variant `variant` (directly, or a move of a local whose only def is)?"""
    if rv[0] == "agg" and rv[1][0] == "adt" and rv[1][3] == variant:
        return True
    if rv[0] == "use" and rv[1][0] in ("c", "m") and not rv[1][1][1] and depth < 4:
        ds = body.defs().get(rv[1][1][0], [])
        if len(ds) == 1 and ds[0][0] == "s":
            return rv_is_variant(body, ds[0][3], variant, depth + 1)
    if rv[0] == "use" and rv[1][0] == "k" and variant in rv[1][1]:
        return True
    return False


def closure_creations(F, cl_fn):
    """where is closure `cl_fn` constructed?  yields (creating Body, block, local holding the closure)"""
    root = cl_fn.get("parent")
    cname = cl_fn["id"].lstrip("<").split("::", 1)[0]
    crate = F.crate(cname) if cname in F.info["files"] else None
    if crate is None:
        return
    cands = [f for f in crate.by_id.get(root, [])] + crate.closures_of.get(root, [])
    for fn in cands:
        if "mir" not in fn or fn is cl_fn:
            continue
        for bi, bl in enumerate(fn["mir"]["blocks"]):
            for s in bl["s"]:
                if s[0] == "a" and s[2][0] == "agg" and s[2][1][0] in ("closure", "coroutine", "coroutine_closure") and s[2][1][1] == cl_fn["id"]:
                    yield Body(fn), bi, s[1][0]


def value_flows_to_calls(body, local, depth=0, seen=None):
    """calls that receive `local` (or a move/ref alias of it) as an argument: list of (block, term, arg index)"""
    seen = seen or set()
    if local in seen or depth > 6:
        return []
    seen.add(local)
    out = []
    for u in body.uses(local):
        if u["kind"] == "arg":
            out.append((u["b"], u["t"], u["argi"]))
        elif u["kind"] == "stmt":
            rv = u["s"][2]
            if rv[0] in ("use", "ref", "cast") and not u["s"][1][1]:
                out += value_flows_to_calls(body, u["s"][1][0], depth + 1, seen)
    return out


def control_dependent_on(body, block, switch_pred):
    """is `block` control dependent on a switch satisfying switch_pred(body, switch_block)?  i.e. some
    out-edge of such a switch, when removed, makes `block` unreachable from entry.  returns the switch blocks."""
    out = []
    for sb in range(body.n):
        t = body.term(sb)
        if t["k"] != "switch" or not switch_pred(body, sb):
            continue
        for tgt in body.succ(sb):
            if block not in body.reachable(0, removed_edges=[(sb, tgt)]):
                out.append(sb)
                break
    return out


def switch_discr_sources(body, sb):
    """(calls, discr-types) the switch's discriminant derives from"""
    t = body.term(sb)
    l = op_local(t["d"])
    if l is None:
        return [], []
    seen, calls = body.back_slice(l)
    dtys = []
    for x in seen:
        for d in body.defs().get(x, []):
            if d[0] == "s" and d[3][0] == "discr":
                dtys.append(d[3][2])
    return [c for _, c in calls], dtys


PANIC_RE = re.compile(r"core::panicking::|std::rt::begin_panic|assert_failed|::panic_fmt|unwrap_failed|expect_failed|panic_display|panic_explicit")


def reject_blocks(body):
    """blocks that reject: build Err into _0, `?`-propagate, or call a panic entry point"""
    out = set(err_exits(body))
    for bb, t in body.calls():
        if PANIC_RE.search(callee(t) or ""):
            out.add(bb)
    return out


def origin_locals(body, local):
    """`local` plus the locals it is a plain move/copy of"""
    orig = {local}
    ch = True
    while ch:
        ch = False
        for x in list(orig):
            for d in body.defs().get(x, []):
                if d[0] == "s" and d[3][0] == "use" and d[3][1][0] in ("c", "m") and not d[3][1][1][1] and d[3][1][1][0] not in orig:
                    orig.add(d[3][1][1][0])
                    ch = True
    return orig


def decides_rejection(body, sb, rej):
    """switch `sb` has one successor from which every path rejects (no accepting exit is reachable without
    passing a rejecting block) and another from which an accepting exit is still reachable: covers `a || b`
    chains of rejecting conditions, where no single edge removal makes the shared rejecting block unreachable"""
    oks = set(ok_exits(body) if returns_result(body) else body.return_blocks()) - set(rej)
    if not oks:
        return False
    must, may = False, False
    for tgt in body.succ(sb):
        if tgt in rej:
            must = True
            continue
        r = body.reachable(tgt, removed_blocks=list(rej))
        if any(o in r for o in oks):
            may = True
        elif any(x in body.reachable(tgt) for x in rej):
            must = True
    return must and may


ERR_PLUMBING = re.compile(r"^core::fmt::|^std::fmt::|::format$|::to_string$|ArrowError::|ParquetError::")
ERR_ADAPTORS = re.compile(r"::map_err$|::ok_or_else$|::ok_or$|::unwrap_or_else$|::expect$")
_STOP = lambda n: bool(ERR_PLUMBING.search(n))
_SELF_ONLY = lambda n: bool(ERR_ADAPTORS.search(n))


def value_is_checked(body, local, rej=None, strong=False):
    """does the value in `local` (forward taint, through calls) reach the discriminant of a switch on
    which some rejecting block is control dependent, or the condition of an assert?"""
    rej = reject_blocks(body) if rej is None else rej
    tainted = body.taint(origin_locals(body, local), stop_calls=_STOP if strong else None, self_only_calls=_SELF_ONLY if strong else None)
    for sb in range(body.n):
        t = body.term(sb)
        if t["k"] == "assert" and any(x in tainted for x in operand_locals(t["cond"])):
            return True
        if t["k"] == "switch" and any(x in tainted for x in operand_locals(t["d"])):
            for tgt in body.succ(sb):
                r = body.reachable(0, removed_edges=[(sb, tgt)])
                if any(x not in r for x in rej):
                    return True
            if strong and decides_rejection(body, sb, rej):
                return True
    return False


def result_constructions(body, self_base, F=None):
    """sites where the function builds its result: struct literals of `self_base` and calls to unsafe
    *unchecked* constructors.  yields (block, kind, [(role, operand)])"""
    adt = None
    if F is not None:
        try:
            adt = F.adt(self_base)
        except Exception:
            adt = None
    for bl in range(body.n):
        for s in body.stmts(bl):
            if s[0] == "a" and s[2][0] == "agg" and s[2][1][0] == "adt" and s[2][1][1] == self_base:
                ops = s[2][2]
                roles = []
                if adt:
                    fields = adt["variants"][s[2][1][2]]["fields"] if s[2][1][2] < len(adt["variants"]) else []
                    roles = [f["name"] for f in fields]
                if len(roles) != len(ops):
                    roles = ["#%d" % i for i in range(len(ops))]
                yield bl, "literal", list(zip(roles, ops))
        t = body.term(bl)
        if t["k"] == "call" and (t.get("f") or {}).get("unsafe") and re.search(r"unchecked", (callee(t) or "").split("::")[-1]):
            yield bl, (callee(t) or "").split("::")[-1], [("arg%d" % i, a) for i, a in enumerate(t["args"])]


def locals_reading_field(body, field):
    """locals assigned from a place / reference involving self.<field> (any depth of reborrow)"""
    out = set()
    for bl in range(body.n):
        for s in body.stmts(bl):
            if s[0] != "a":
                continue
            rv = s[2]
            ps = []
            if rv[0] in ("ref", "raw", "discr"):
                ps.append(rv[2] if rv[0] != "discr" else rv[1])
            else:
                ps += [op[1] for op in rvalue_operands(rv) if op[0] in ("c", "m")]
            for p in ps:
                if any(isinstance(e, list) and e[0] == "f" and e[2] == field for e in p[1]):
                    out.add(s[1][0])
    return out


def switches_depending_on_field(body, field):
    src = locals_reading_field(body, field)
    tainted = body.taint(src)
    out = []
    for sb in range(body.n):
        t = body.term(sb)
        if t["k"] == "switch" and any(l in tainted for l in operand_locals(t["d"])):
            out.append(sb)
    return out




def validation_anchors(body):
    """(number of rejecting branches every successful path must pass, number of must-pass loops that contain
    a rejecting branch).  A rejecting branch is a switch/assert on which a rejecting block is control dependent."""
    rej = reject_blocks(body)
    oks = ok_exits(body) if returns_result(body) else body.return_blocks()
    rs = []
    for sb in range(body.n):
        t = body.term(sb)
        if t["k"] == "assert":
            rs.append(sb)
            continue
        if t["k"] != "switch":
            continue
        for tgt in body.succ(sb):
            r = body.reachable(0, removed_edges=[(sb, tgt)])
            if any(x not in r for x in rej):
                rs.append(sb)
                break

    def mustpass(x):
        return bool(oks) and all(e not in body.reachable(0, removed_blocks=[x]) for e in oks)
    direct = [s for s in rs if mustpass(s)]
    dom = body.dominators()
    loops = set()
    for s in rs:
        if s in direct:
            continue
        for h in dom.get(s, ()):
            if h != s and s in body.reachable(h) and h in body.reachable(s) and mustpass(h):
                loops.add(h)
    return len(direct), len(loops)


def validation_anchor_total(F, fn, depth=2, seen=None):
    """must-pass validation anchors of fn, plus those of the fallible same-crate helpers that every successful
    path calls with the result kept (so extracting checks into a helper does not lower the total)"""
    seen = seen if seen is not None else set()
    if fn["id"] in seen or "mir" not in fn:
        return 0
    seen.add(fn["id"])
    body = Body(fn)
    d, l = validation_anchors(body)
    total = d + l
    if depth > 0:
        oks = ok_exits(body) if returns_result(body) else body.return_blocks()
        crate = fn["id"].lstrip("<").split("::", 1)[0]
        for bb, t in body.calls():
            if t["k"] != "call" or disc.result_err_type(t.get("rt", "")) is None:
                continue
            cn = callee(t) or ""
            if not cn.lstrip("<").startswith(crate + "::"):
                continue
            if not (oks and all(e not in body.reachable(0, removed_blocks=[bb]) for e in oks)):
                continue
            if not t["dest"][1] and disc.classify(body, t["dest"][0])[0] == "discarded":
                continue
            g = F.resolve(cn)
            if g is not None:
                total += validation_anchor_total(F, g, depth - 1, seen)
    return total


# ------------------------------------------------------------------ checked inputs of a validator unit
def _place_reads(body):
    """every read of a place: (base local, projection, seed local that receives the value) over statements
    and call arguments; the seed is the assigned local / the call's destination"""
    out = []

    def places_of_rv(rv):
        ps = []
        for op in rvalue_operands(rv):
            p = op_place(op)
            if p is not None:
                ps.append(p)
        if rv[0] in ("ref", "rawptr", "addr") and len(rv) > 2 and isinstance(rv[2], list):
            ps.append(rv[2])
        if rv[0] in ("len", "discr") and isinstance(rv[1], list):
            ps.append(rv[1])
        return ps
    for bl in range(body.n):
        for s in body.stmts(bl):
            if s[0] != "a":
                continue
            for p in places_of_rv(s[2]):
                out.append((p[0], p[1], s[1][0], None))
        t = body.term(bl)
        if t["k"] == "call":
            for a in t["args"]:
                p = op_place(a)
                if p is not None:
                    out.append((p[0], p[1], t["dest"][0], None))
        elif t["k"] == "switch":
            p = op_place(t["d"])
            if p is not None:
                out.append((p[0], p[1], None, bl))
        elif t["k"] == "assert":
            p = op_place(t["cond"])
            if p is not None:
                out.append((p[0], p[1], None, bl))
    return out


def _proj_fields(proj):
    out = []
    for e in proj:
        if isinstance(e, list) and e[0] == "f":
            out.append(e[2] if e[2] is not None else str(e[1]))
        elif isinstance(e, list) and e[0] in ("i", "ci", "sub"):
            out.append("[]")
    return out


def _strip_ty(t):
    t = re.sub(r"'[a-z_0-9]+ ?", "", t or "")
    while t.startswith("&") or t.startswith("mut "):
        t = t[1:].lstrip() if t.startswith("&") else t[4:]
    t = re.sub(r"\{closure@[^}]*\}", "{closure}", t)
    return t


def checked_inputs(F, unit_fn):
    """For a validator and the closures nested in it: which named inputs (arguments, captured variables, and
    their fields, by debug name) flow into a branch on which a rejecting exit depends (or, in a closure that
    only computes a predicate, into its result / one of its branches).  Returns {signature: set(names)} where
    signature = `<type of the variable>#<field path>`."""
    crate = F.crate(unit_fn["id"].lstrip("<").split("::", 1)[0])
    fns = [unit_fn]
    i = 0
    while i < len(fns):
        fns += [c for c in crate.closures_of.get(fns[i]["id"], []) if "mir" in c]
        i += 1
    res = {}
    for fn in fns:
        if "mir" not in fn:
            continue
        b = Body(fn)
        rej = reject_blocks(b)
        for bl in range(b.n):               # Err(..) built anywhere (closures returning Option<Result<..>>, iterator adaptors)
            for st in b.stmts(bl):
                if st[0] == "a" and st[2][0] == "agg" and st[2][1][0] == "adt" and st[2][1][1].endswith("result::Result") and st[2][1][3] == "Err":
                    rej.add(bl)
        predicate_only = not rej and fn is not unit_fn
        if predicate_only and b.locals[0] != "bool":
            continue
        named = []

        def arg_derived(l, depth=0):
            """pattern bindings of a parameter: `|(i, &x)|` copies the tuple fields of the argument into fresh locals"""
            if 1 <= l <= b.argc:
                return True
            ds = b.defs().get(l, [])
            if depth > 3 or len(ds) != 1 or ds[0][0] != "s" or ds[0][3][0] != "use":
                return False
            p = op_place(ds[0][3][1])
            return p is not None and arg_derived(p[0], depth + 1)
        for name, pl in b.dbg:
            if isinstance(pl, list) and isinstance(pl[0], int) and name != "args" and arg_derived(pl[0]):
                named.append((name, pl[0], pl[1]))
        if not named:
            continue
        cache = {}

        def seed_checked(seed):
            if seed in cache:
                return cache[seed]
            if predicate_only:
                tainted = b.taint(origin_locals(b, seed), stop_calls=_STOP, self_only_calls=_SELF_ONLY)
                ok = 0 in tainted or any(b.term(sb)["k"] == "switch" and any(x in tainted for x in operand_locals(b.term(sb)["d"])) for sb in range(b.n))
            else:
                ok = value_is_checked(b, seed, rej, strong=True)
            cache[seed] = ok
            return ok
        for base, proj, seed, swb in _place_reads(b):
            best = None
            for name, l, dproj in named:
                if l != base:
                    continue
                if proj[:len(dproj)] == dproj and (best is None or len(dproj) > len(best[2])):
                    best = (name, l, dproj)
                elif dproj[:len(proj)] == proj and len(proj) < len(dproj) and best is None:
                    best = (name, l, dproj)         # the reference to a captured variable is read, dereferenced later
            if best is None:
                continue
            rest = _proj_fields(proj[len(best[2]):])
            if swb is not None:
                ok = True if predicate_only else (any(any(x not in b.reachable(0, removed_edges=[(swb, tgt)]) for x in rej) for tgt in b.succ(swb)) or decides_rejection(b, swb, rej))
            else:
                ok = seed_checked(seed)
            if not ok:
                continue
            ty = b.locals[best[1]]
            # type of the variable itself: follow the dbg projection for captured variables
            for e in best[2]:
                if isinstance(e, list) and e[0] == "f" and len(e) > 3 and e[3]:
                    ty = e[3]
            sig = "%s%s#%s" % ("" if fn is unit_fn else "closure:", _strip_ty(ty), ".".join(rest))
            res.setdefault(sig, set()).add(best[0] + ("." + ".".join(rest) if rest else ""))
    res["_closures"] = {f["id"] for f in fns[1:]}
    return res


def rejection_points(body):
    """number of decisions in `body` that reject: switches with one successor from which an accepting exit is still reachable
    (without passing a rejecting block) and another from which it is not.  Linear: one backward reachability from the accepting exits."""
    rej = reject_blocks(body)
    if not rej:
        return 0
    oks = set(ok_exits(body) if returns_result(body) else body.return_blocks()) - set(rej)
    preds = body.preds()
    acc = set()
    st = list(oks)
    while st:
        x = st.pop()
        if x in acc or x in rej:
            continue
        acc.add(x)
        st.extend(preds.get(x, []))
    canrej = _can_reach(body, rej)
    n = 0
    for sb in range(body.n):
        if body.term(sb)["k"] != "switch" or sb not in acc:
            continue
        succ = body.succ(sb)
        # the rejecting side must actually lead to a rejection: the `unreachable` arm of an exhaustive match is neither side
        if any(s not in acc and s in canrej for s in succ) and any(s in acc for s in succ):
            if _forwards_iterator_result(body, sb) or _is_propagation(body, sb):
                continue
            n += 1
    return n


def _is_propagation(body, sb):
    """the switch is the `?` applied to a call's result: the rejection is the callee's, it moves with every extract / inline / loop <-> iterator rewrite"""
    l = op_local(body.term(sb)["d"])
    for _ in range(4):
        if l is None:
            return False
        ds = body.defs().get(l, [])
        if len(ds) != 1:
            return False
        d = ds[0]
        if d[0] == "s" and d[3][0] == "discr":
            l = d[3][1][0]
            continue
        if d[0] == "s" and d[3][0] == "use":
            l = op_local(d[3][1])
            continue
        if d[0] == "call":
            return bool(re.search(r"Try>::branch$", callee(d[3]) or ""))
        return False
    return False


_ITER_CONSUMER = re.compile(r"^(core|std)::iter::.*::(try_for_each|try_fold|try_rfold|collect|try_collect|sum|product|all|any|find|find_map|position)$")


def _forwards_iterator_result(body, sb):
    """the switch is the `?` on the result of `iter.try_for_each(closure)` / `.collect::<Result<..>>()`: it only forwards what the closure rejects, and it
    disappears when the closure is rewritten as a `for` loop (and appears when a loop becomes an iterator chain)"""
    l = op_local(body.term(sb)["d"])
    seen = 0
    while l is not None and seen < 6:
        seen += 1
        ds = body.defs().get(l, [])
        if len(ds) != 1:
            return False
        d = ds[0]
        if d[0] == "s" and d[3][0] == "discr":
            l = d[3][1][0]
            continue
        if d[0] == "s" and d[3][0] == "use":
            l = op_local(d[3][1])
            continue
        if d[0] == "call":
            n = callee(d[3]) or ""
            if re.search(r"Try>::branch$", n) and d[3]["args"]:
                l = op_local(d[3]["args"][0])
                continue
            names = callee_names(d[3])
            return any(_ITER_CONSUMER.search(x or "") for x in names) or bool(_ITER_CONSUMER.search(n))
        return False
    return False


def _can_reach(body, targets):
    """blocks from which some block of `targets` is reachable (targets included)"""
    preds = body.preds()
    out = set()
    st = list(targets)
    while st:
        x = st.pop()
        if x in out:
            continue
        out.add(x)
        st.extend(preds.get(x, []))
    return out


# ------------------------------------------------------------------ under which conditions does a check run at all
def postdominators(body):
    """pdom[b] = blocks that postdominate b (every path from b to an exit passes them); exits = blocks without successors"""
    reach = body.reachable(0)
    EXIT = -1
    succ = {b: [s for s in body.succ(b) if s in reach] or [EXIT] for b in reach}
    nodes = list(reach) + [EXIT]
    full = set(nodes)
    pdom = {b: set(full) for b in nodes}
    pdom[EXIT] = {EXIT}
    order = sorted(reach, reverse=True)
    changed = True
    while changed:
        changed = False
        for b in order:
            new = set.intersection(*[pdom[s] for s in succ[b]]) | {b}
            if new != pdom[b]:
                pdom[b] = new
                changed = True
    return pdom


def guard_profile(body):
    """for every rejecting decision of `body`: the number of NON-rejecting decisions it is (transitively) control dependent on,
    i.e. how many conditions must hold for the check to be executed at all.  Returns the sorted list of these depths."""
    rej = reject_blocks(body)
    if not rej:
        return []
    oks = set(ok_exits(body) if returns_result(body) else body.return_blocks()) - set(rej)
    preds = body.preds()
    acc = set()
    st = list(oks)
    while st:
        x = st.pop()
        if x in acc or x in rej:
            continue
        acc.add(x)
        st.extend(preds.get(x, []))
    reach = body.reachable(0)
    switches = [sb for sb in reach if body.term(sb)["k"] == "switch"]
    rejecting = set()
    canrej = _can_reach(body, rej)
    for sb in switches:
        if sb in acc:
            succ = body.succ(sb)
            if any(s not in acc and s in canrej for s in succ) and any(s in acc for s in succ):
                rejecting.add(sb)
    forwarders = {sb for sb in rejecting if _forwards_iterator_result(body, sb)}
    pdom = postdominators(body)
    # control dependence: x depends on s iff some successor t of s has x in pdom[t] (or x == t) and x does not strictly postdominate s
    cd = {}
    for s in switches:
        for t in body.succ(s):
            if t not in reach:
                continue
            for x in pdom[t]:
                if x == -1:
                    continue
                if x != s and x in pdom[s]:
                    continue
                cd.setdefault(x, set()).add(s)
    # the test that ends a loop ("is there another element?") is not a condition under which a check is skipped: a closure handed to
    # `try_for_each` has no such test, the same body written as a `for` loop has one
    loop_exit = set()
    for s in switches:
        r = body.reachable(s)
        in_cycle = any(s in body.reachable(x) for x in body.succ(s))
        if in_cycle and any(s not in body.reachable(x) for x in body.succ(s) if x in reach):
            loop_exit.add(s)
    out = []
    for d in sorted(rejecting - forwarders):
        seen, st, guards = set(), [d], set()
        while st:
            x = st.pop()
            for s in cd.get(x, ()):
                if s in seen or s == d:
                    continue
                seen.add(s)
                if s in loop_exit:
                    # do not look through the loop test: what it depends on (the checks of the previous iteration) is an artefact of
                    # iterating, not a condition for this check
                    continue
                if s not in rejecting:
                    guards.add(s)
                st.append(s)
        out.append(len(guards))
    return sorted(out)


def control_dependence(body, edges=False):
    """{block: set of switch blocks it is directly control dependent on}  (edges=True: set of (switch, successor taken))"""
    reach = body.reachable(0)
    pdom = postdominators(body)
    cd = {}
    for s in reach:
        if body.term(s)["k"] != "switch":
            continue
        for t in body.succ(s):
            if t not in reach:
                continue
            for x in pdom[t]:
                if x == -1 or (x != s and x in pdom[s]):
                    continue
                cd.setdefault(x, set()).add((s, t) if edges else s)
    return cd


def influence_roots(body, local, max_steps=4000):
    """which inputs can influence the VALUE held in `local`: backward closure over data dependences, plus -- where a local has several
    definitions -- over the branch conditions that choose between them.  Returns a set of roots: ("param", n, fields...) for reads of
    parameter n, ("call", callee) for results of calls without arguments that were followed, ("const",) is not reported."""
    cde = control_dependence(body, edges=True)
    roots = set()
    seen = set()
    work = [local]
    steps = 0
    while work and steps < max_steps:
        steps += 1
        l = work.pop()
        if l in seen:
            continue
        seen.add(l)
        if 1 <= l <= body.argc:
            roots.add(("param", l))
        ds = body.defs().get(l, [])
        blocks = []
        for d in ds:
            if d[0] == "s":
                blocks.append(d[1])
                rv = d[3]
                for op in rvalue_operands(rv):
                    p = op_place(op)
                    if p is not None:
                        if 1 <= p[0] <= body.argc:
                            fs = tuple(e[2] if e[2] is not None else str(e[1]) for e in p[1] if isinstance(e, list) and e[0] == "f")
                            roots.add(("param", p[0]) + fs)
                        work.append(p[0])
                        for e in p[1]:
                            if isinstance(e, list) and e[0] == "i":
                                work.append(e[1])
            elif d[0] == "call":
                blocks.append(d[1])
                for a in d[3]["args"]:
                    p = op_place(a)
                    if p is not None:
                        if 1 <= p[0] <= body.argc:
                            fs = tuple(e[2] if e[2] is not None else str(e[1]) for e in p[1] if isinstance(e, list) and e[0] == "f")
                            roots.add(("param", p[0]) + fs)
                        work.append(p[0])
        if len(blocks) > 1:
            # branch conditions that distinguish the definitions: (switch, edge) pairs some definition depends on and another does not
            anc = []
            for bl in blocks:
                a, st = set(), [bl]
                while st:
                    x = st.pop()
                    for (sw, t) in cde.get(x, ()):
                        if (sw, t) not in a:
                            a.add((sw, t))
                            st.append(sw)
                anc.append(a)
            common = set.intersection(*anc)
            for a in anc:
                for (sw, t) in a - common:
                    for x in operand_locals(body.term(sw)["d"]):
                        work.append(x)
    return roots



# ------------------------------------------------------------------ "this function was refactored by extraction": not comparable with the reference tree
_KNOWN = None
WORKSPACE = ("arrow_", "parquet")


def known_functions():
    global _KNOWN
    if _KNOWN is None:
        import json, os
        p = os.path.join(os.path.dirname(__file__), "tables", "known_functions.json")
        _KNOWN = set(json.load(open(p))) if os.path.exists(p) else set()
    return _KNOWN


def calls_new_function(F, fn):
    """does `fn` (or one of its closures) call a workspace function that did not exist on the reference tree?  Extracting a block into a new helper moves
    operands, checks and must-pass calls into that helper: the ratchets (which compare one function with its former self) then have nothing to compare."""
    known = known_functions()
    if not known:
        return False
    crate = F.crate(fn["id"].lstrip("<").split("::", 1)[0])
    root = fn
    while root.get("parent"):
        root = F.fn(root["parent"], required=False) or {}
    if not root:
        return False
    fns, i = [root], 0
    while i < len(fns):
        fns += [c for c in crate.closures_of.get(fns[i]["id"], []) if "mir" in c]
        i += 1
    for f in fns:
        if "mir" not in f:
            continue
        for _, t in Body(f).calls():
            n = callee(t) or ""
            head = n.lstrip("<").split("::", 1)[0]
            if not head.startswith(WORKSPACE):
                continue
            g = F.resolve(n)
            if g is not None and g["kind"] != "Closure" and norm(g["id"]) not in known:
                return True
    return False
