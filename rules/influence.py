"""INFLUENCE RATCHET — an input that decided a named intermediate value keeps deciding it.

For every function in scope and every named local variable (debug name), the set of parameters (by name, with the field path read from
them) that can influence its value -- by data flow, or by selecting between its definitions -- is recorded from the reference tree.
A later tree in which the function, the variable and the parameter all still exist, but the parameter no longer reaches the variable, has
dropped an operand from a computation: a condition that lost `&& filter_len == n`, a limit that no longer looks at `nulls_first`, a
position that lost `+ offset`.  Renames (of the function, the variable or the parameter) are not comparable and are not reported."""
import json, os, re
from . import flow
from .mirlib import Body

TABLE = os.path.join(os.path.dirname(__file__), "tables", "influence.json")


def _param_names(b):
    out = {}
    for nm, pl in b.dbg:
        if isinstance(pl, list) and isinstance(pl[0], int) and 1 <= pl[0] <= b.argc and not pl[1]:
            out[pl[0]] = nm
    if b.fn["kind"] == "Closure":
        # captured variables: fields of the environment
        for nm, pl in b.dbg:
            if isinstance(pl, list) and pl[0] == 1 and pl[1]:
                fl = [e[1] for e in pl[1] if isinstance(e, list) and e[0] == "f"]
                if fl:
                    out[("up", fl[0])] = nm
    return out


def function_influences(fn):
    """{variable name: sorted list of 'param[.field]' strings}"""
    b = Body(fn)
    if b.n > 600:
        return {}
    pn = _param_names(b)
    if not pn:
        return {}
    out = {}
    names = {}
    for nm, pl in b.dbg:
        if isinstance(pl, list) and isinstance(pl[0], int) and not pl[1] and pl[0] > b.argc and nm != "args" and not nm.startswith("_"):
            names.setdefault(nm, []).append(pl[0])
    names["<return value>"] = [0]
    for nm, locs in names.items():
        if len(locs) != 1:
            continue            # shadowed names are ambiguous
        roots = set()
        for r in flow.influence_roots(b, locs[0], max_steps=1500):
            if r[0] != "param":
                continue
            if b.fn["kind"] == "Closure" and r[1] == 1 and len(r) > 2:
                key = ("up", int(r[2]) if str(r[2]).isdigit() else r[2])
                if key in pn:
                    roots.add(pn[key] + ("." + ".".join(map(str, r[3:])) if len(r) > 3 else ""))
                continue
            if r[1] in pn:
                roots.add(pn[r[1]] + ("." + ".".join(map(str, r[2:])) if len(r) > 2 else ""))
        if roots:
            out[nm] = sorted(roots)
    return out


def build_table(F, scopes):
    """scopes: list of (crate, path regex)"""
    tab = {}
    for cn, rx in scopes:
        rx = re.compile(rx)
        for fn in F.crate(cn).fns:
            if "mir" not in fn or not rx.search(fn["file"]):
                continue
            inf = function_influences(fn)
            if inf:
                tab[flow.norm(fn["id"])] = inf
    return tab


def check(ck, F, rule, prefixes, floor):
    tab = json.load(open(TABLE))
    ck.rule(rule, "every parameter (or captured variable, with the field read from it) that could influence a named intermediate value on the reference tree still "
            "can, as long as function, variable and parameter all still exist: an operand dropped from a condition, a limit or a position is reported", floor)
    for fid, ref in sorted(tab.items()):
        if not any(fid.lstrip("<").startswith(p) for p in prefixes):
            continue
        fn = F.resolve(fid)
        if fn is None or "mir" not in fn:
            continue            # renamed / removed: not comparable
        if flow.calls_new_function(F, fn):
            for var in ref:     # refactored by extraction into a new helper: not comparable
                ck.ok(rule, "%s#%s" % (fid, var), "not compared: the function now calls a helper that did not exist on the reference tree", nontrivial=False)
            continue
        b = Body(fn)
        pn = set(_param_names(b).values())
        cur = function_influences(fn)
        for var, roots in sorted(ref.items()):
            if var not in cur:
                continue
            lost = []
            for r in roots:
                base = r.split(".")[0]
                if r in cur[var] or base not in pn:
                    continue
                if "." in r:
                    # a field of a parameter: if the parameter is now read as a whole where it was not before, the granularity changed: not comparable
                    if base in cur[var] and base not in roots:
                        continue
                else:
                    # the whole parameter: still influencing through (some of) its fields
                    if any(c.startswith(r + ".") for c in cur[var]):
                        continue
                lost.append(r)
            key = "%s#%s" % (fid, var)
            if lost:
                ck.bad(rule, key, "in %s the value `%s` no longer depends on %s (reference tree: %s; now: %s): an operand was dropped from the computation or the condition that "
                       "selects it" % (fid, var, ", ".join("`%s`" % x for x in lost), roots, cur[var]), "%s:%s" % (fn["file"], fn["line"]))
            else:
                ck.ok(rule, key, "influenced by %s" % cur[var], nontrivial=False)


# property -> prefixes of the functions whose named intermediate values are ratcheted for it, and the instance floor (80% of the reference count)
SCOPE = {
 'C01': (['arrow_array::builder', 'arrow_buffer::', 'arrow_array::array', 'arrow_data::data', 'arrow_data::transform'], 1773),
 'C02': (['arrow_data::equal', 'arrow_ord::cmp', 'arrow_array::array'], 1666),
 'C03': (['arrow_select::', 'arrow_data::transform'], 1224),
 'C04': (['arrow_ipc::writer', 'arrow_ipc::reader', 'arrow_ipc::convert'], 547),
 'C07': (['parquet::column::writer', 'parquet::file::writer', 'parquet::arrow::arrow_reader::statistics', 'parquet::file::page_index', 'parquet::bloom_filter', 'parquet::arrow::arrow_writer', 'parquet::file::metadata::writer', 'parquet::file::statistics'], 1612),
 'C08': (['parquet::file::serialized_reader', 'parquet::encodings', 'parquet::arrow::array_reader', 'parquet::arrow::buffer', 'parquet::column::reader', 'parquet::parquet_thrift', 'parquet::file::metadata', 'arrow_csv::reader', 'arrow_json::reader', 'arrow_avro::reader', 'arrow_avro::codec', 'parquet_variant::', 'arrow_ipc::reader', 'arrow_ipc::compression', 'parquet::compression', 'parquet::util::bit_util'], 4359),
 'C09': (['arrow_data::data', 'arrow_data::byte_view', 'arrow_array::array', 'arrow_buffer::buffer'], 2071),
 'C10': (['arrow_ord::'], 376),
 'C11': (['arrow_row::'], 491),
 'C12': (['arrow_arith::'], 553),
 'C13': (['arrow_cast::'], 827),
 'C14': (['arrow_json::reader::tape', 'arrow_csv::reader', 'arrow_ipc::reader::stream', 'arrow_avro::reader'], 722),
 'C16': (['arrow_buffer::', 'arrow_data::ffi', 'arrow_array::ffi'], 1277),
 'C18': (['arrow_ipc::writer', 'parquet::file::writer', 'parquet::column::writer', 'arrow_csv::writer', 'arrow_json::writer', 'arrow_avro::writer', 'parquet::arrow::arrow_writer'], 1594),
}


def run(ck, F, pid):
    pre, floor = SCOPE[pid]
    check(ck, F, "%s.influence-kept" % pid, pre, floor)
