"""C12 / C02 — run-end coordinates are not mixed.

`RunEndBuffer::sliced_values()` yields run ends RELATIVE to the logical slice (offset subtracted, capped at the length);
`RunEndBuffer::offset()` / `RunArray::offset()` are positions in the ABSOLUTE (unsliced) coordinate system.  Combining a value of the first
kind with one of the second in an arithmetic operation, a comparison, `clamp`, `min` or `max` adjusts for the slice twice: right for
unsliced arrays (offset 0), wrong for every slice."""
import re
from . import flow
from .mirlib import Body, callee, op_local

REL = re.compile(r"::sliced_values$")
ABS = re.compile(r"RunEndBuffer(::<[^>]*>)?::offset$|RunArray(::<[^>]*>)?::offset$")
COMBINE = re.compile(r"::(clamp|min|max|saturating_sub|checked_sub|wrapping_sub|cmp|partial_cmp)$")
CRATES = ["arrow_row", "arrow_data", "arrow_arith", "arrow_cast", "arrow_select", "arrow_array", "arrow_ord", "arrow_ipc", "arrow_string", "parquet"]


def run(ck, F, rule="C12.ree-coordinates", crates=CRATES, floor=5):
    ck.rule(rule, "in every function that iterates RunEndBuffer::sliced_values() (slice-relative run ends) no such value is combined -- arithmetic, comparison, clamp / "
            "min / max -- with a value derived from the buffer's absolute offset()", floor)
    for cn in crates:
        for fn in F.crate(cn).fns:
            if "mir" not in fn:
                continue
            b = Body(fn)
            rel = [t["dest"][0] for _, t in b.calls() if REL.search(callee(t) or "")]
            if not rel:
                continue
            ab = [t["dest"][0] for _, t in b.calls() if ABS.search(callee(t) or "")]
            key = flow.norm(fn["id"])
            if not ab:
                ck.ok(rule, key, "no absolute offset in this function")
                continue
            trel = b.taint(set(rel), through_calls=True)
            tabs = b.taint(set(ab), through_calls=True)
            mix = None
            for bl in range(b.n):
                for s in b.stmts(bl):
                    if s[0] == "a" and s[2][0] == "bin":
                        ls = [x for x in (op_local(s[2][2]), op_local(s[2][3])) if x is not None]
                        if any(l in trel and l not in tabs for l in ls) and any(l in tabs and l not in trel for l in ls):
                            mix = mix or (bl, s[2][1])
                t = b.term(bl)
                if t["k"] == "call" and COMBINE.search(callee(t) or ""):
                    ls = [x for x in (op_local(a) for a in t["args"]) if x is not None]
                    if any(l in trel and l not in tabs for l in ls) and any(l in tabs and l not in trel for l in ls):
                        mix = mix or (bl, (callee(t) or "").split("::")[-1])
            if mix:
                ck.bad(rule, key, "%s combines a slice-relative run end from sliced_values() with the buffer's absolute offset() in `%s`: the slice offset is applied twice, "
                       "so sliced run arrays are aggregated over the wrong run lengths" % (fn["id"], mix[1]), b.loc(mix[0]))
            else:
                ck.ok(rule, key, "relative and absolute positions are kept apart")
