"""C09 — checked constructors never accept a malformed layout (structural clauses).

1. validation obligations: for every DataType constructor, the validators the Arrow format requires are
   reachable in ArrayData::validate / validate_child_data / validate_nulls / validate_values when the
   `match self.data_type` dispatch is evaluated for that constructor (exhaustive over the enum as
   defined today), with the generic argument matching the offset / key / run-end type;
2. stored operands stay checked: in every checked constructor, each value stored into the result that
   is validated on the reference tree still flows into a branch on which a rejecting exit depends;
3. length+offset overflow guard; 4. FFI import stays `unsafe`; 5. unforgeability (witnesses / API)."""
import json, os, re
from . import facts as factsmod, api, flow, dtm
from .mirlib import Body, callee, op_local, op_place

VALIDATORS = ["arrow_data::data::ArrayData::validate", "arrow_data::data::ArrayData::validate_child_data",
              "arrow_data::data::ArrayData::validate_values", "arrow_data::data::ArrayData::validate_nulls"]

OFF32 = ["validate_offsets<i32>"]
OFF64 = ["validate_offsets<i64>"]
# DataType constructor -> obligations: name -> list of acceptable discharging callees (callee<generic>)
OBLIGATIONS = {
    "Binary": {"offsets-in-bounds": OFF32, "offsets-monotonic-in-values": ["validate_offsets_full<i32>"]},
    "LargeBinary": {"offsets-in-bounds": OFF64, "offsets-monotonic-in-values": ["validate_offsets_full<i64>"]},
    "Utf8": {"offsets-in-bounds": OFF32, "utf8-and-char-boundaries": ["validate_utf8<i32>"]},
    "LargeUtf8": {"offsets-in-bounds": OFF64, "utf8-and-char-boundaries": ["validate_utf8<i64>"]},
    "BinaryView": {"views-in-bounds": ["validate_binary_view"]},
    "Utf8View": {"views-in-bounds-and-utf8": ["validate_string_view"]},
    "List": {"offsets-in-bounds": OFF32, "offsets-monotonic-in-child": ["validate_offsets_full<i32>"], "child-type-and-count": ["get_single_valid_child_data"]},
    "LargeList": {"offsets-in-bounds": OFF64, "offsets-monotonic-in-child": ["validate_offsets_full<i64>"], "child-type-and-count": ["get_single_valid_child_data"]},
    "Map": {"offsets-in-bounds": OFF32, "offsets-monotonic-in-child": ["validate_offsets_full<i32>"], "child-type-and-count": ["get_single_valid_child_data"]},
    "ListView": {"offsets-sizes-in-child": ["validate_offsets_and_sizes<i32>"], "child-type-and-count": ["get_single_valid_child_data"]},
    "LargeListView": {"offsets-sizes-in-child": ["validate_offsets_and_sizes<i64>"], "child-type-and-count": ["get_single_valid_child_data"]},
    "FixedSizeList": {"child-type-and-count": ["get_single_valid_child_data"]},
    "Struct": {"child-count": ["validate_num_child_data"], "child-type-and-len": ["get_valid_child_data"]},
    "Union": {"child-count": ["validate_num_child_data"], "child-type-and-len": ["get_valid_child_data"],
              "type-ids-in-fields": ["validate_union_values"],
              "dense-offsets-in-child": ["validate_union_values"]},
    "Dictionary": {"keys-in-range": ["check_bounds<*>"], "child-type-and-count": ["get_single_valid_child_data"]},
    "RunEndEncoded": {"run-ends-increasing": ["check_run_ends<*>"], "child-count": ["validate_num_child_data"]},
}
COMMON = {"len-plus-offset-overflow": ["checked_len_plus_offset"], "buffer-count-and-size": ["layout"]}
# nested refinements: (outer constructor, assumed call-result key, inner constructor) -> exactly this validator
KEYS = {"Int8": "i8", "Int16": "i16", "Int32": "i32", "Int64": "i64", "UInt8": "u8", "UInt16": "u16", "UInt32": "u32", "UInt64": "u64"}
RUNS = {"Int16": "i16", "Int32": "i32", "Int64": "i64"}

UNSAFE_NAME = re.compile(r"unchecked|^skip_validation$|^from_ffi|^from_raw$|^set_len$|trusted_len")
UNSAFE_EXEMPT = [
    (r"^arrow_ipc::reader::RecordBatchDecoder::<'a>::with_skip_validation$", "takes an UnsafeFlag, which can only be set to true inside `unsafe`",
     lambda fn: any("UnsafeFlag" in t for t in fn.get("inputs", []))),
]
PRIVATE_ADTS = ["arrow_data::data::ArrayData", "arrow_data::data::UnsafeFlag", "arrow_data::data::ArrayDataBuilder",
                "arrow_buffer::buffer::immutable::Buffer", "arrow_buffer::buffer::offset::OffsetBuffer", "arrow_buffer::buffer::scalar::ScalarBuffer",
                "arrow_buffer::buffer::run::RunEndBuffer", "arrow_buffer::buffer::null::NullBuffer", "arrow_buffer::buffer::boolean::BooleanBuffer",
                "arrow_buffer::buffer::mutable::MutableBuffer", "arrow_buffer::bytes::Bytes",
                "arrow_array::record_batch::RecordBatch", "arrow_array::array::byte_array::GenericByteArray", "arrow_array::array::primitive_array::PrimitiveArray",
                "arrow_array::array::boolean_array::BooleanArray", "arrow_array::array::dictionary_array::DictionaryArray",
                "arrow_array::array::list_array::GenericListArray", "arrow_array::array::list_view_array::GenericListViewArray",
                "arrow_array::array::fixed_size_list_array::FixedSizeListArray", "arrow_array::array::fixed_size_binary_array::FixedSizeBinaryArray",
                "arrow_array::array::struct_array::StructArray", "arrow_array::array::union_array::UnionArray", "arrow_array::array::map_array::MapArray",
                "arrow_array::array::run_array::RunArray", "arrow_array::array::byte_view_array::GenericByteViewArray", "arrow_array::array::null_array::NullArray"]


def reachable_validators(F, assume):
    calls = set()
    for fid in VALIDATORS:
        b = Body(F.fn(fid))
        r = dtm.reach_under(b, assume)
        for bb, t in b.calls():
            if bb in r:
                n = callee(t) or ""
                if n.startswith("arrow_data::"):
                    ga = (t.get("f") or {}).get("ga") or []
                    calls.add(n.split("::")[-1] + ("<%s>" % ga[0] if ga else ""))
    return calls


def discharged(calls, accepted):
    for a in accepted:
        if a.endswith("<*>"):
            if any(c.startswith(a[:-3] + "<") for c in calls):
                return True
        elif a in calls:
            return True
    return False


def run_obligations(ck, F):
    ck.rule("C09.validation-obligations", "for each DataType constructor (enumerated from the enum definition) every validation obligation the Arrow "
            "format assigns to it is discharged by a validator reachable in ArrayData::validate/validate_child_data/validate_nulls/validate_values "
            "when the data_type dispatch is evaluated for that constructor", floor=41)
    variants = dtm.enum_variants(F, "arrow_schema::datatype::DataType")
    ck.count("datatype_constructors", len(variants))
    SELF_DT = (1, ("data_type",))
    for name, d in variants:
        calls = reachable_validators(F, {SELF_DT: d})
        obl = dict(COMMON)
        obl.update(OBLIGATIONS.get(name, {}))
        for oname, accepted in sorted(obl.items()):
            key = "%s:%s" % (name, oname)
            if discharged(calls, accepted):
                ck.ok("C09.validation-obligations", key, "discharged by %s" % [a for a in accepted if discharged(calls, [a])])
            else:
                ck.bad("C09.validation-obligations", key,
                       "ArrayData validation of %s reaches none of %s (reachable validators: %s): a malformed %s layout is accepted by try_new/validate_full"
                       % (name, accepted, sorted(calls), name), "arrow-data/src/data.rs")
    # a constructor unknown to the obligation table that is not a fixed-width/primitive layout must be looked at
    ck.rule("C09.key-type-pairing", "the dictionary key / run-end type selects the validator instantiated at exactly that native type", floor=11)
    dmap = dict(variants)
    for kname, native in KEYS.items():
        calls = reachable_validators(F, {SELF_DT: dmap["Dictionary"], "call:AsRef::as_ref": dmap[kname]})
        got = sorted(c for c in calls if c.startswith("check_bounds<"))
        if got == ["check_bounds<%s>" % native]:
            ck.ok("C09.key-type-pairing", "Dictionary(%s)" % kname, "check_bounds<%s>" % native)
        else:
            ck.bad("C09.key-type-pairing", "Dictionary(%s)" % kname, "keys of type %s are validated with %s, expected check_bounds<%s>" % (kname, got, native), "arrow-data/src/data.rs")
    for kname, native in RUNS.items():
        calls = reachable_validators(F, {SELF_DT: dmap["RunEndEncoded"], "call:Field::data_type": dmap[kname]})
        got = sorted(c for c in calls if c.startswith("check_run_ends<"))
        if got == ["check_run_ends<%s>" % native]:
            ck.ok("C09.key-type-pairing", "RunEndEncoded(%s)" % kname, "check_run_ends<%s>" % native)
        else:
            ck.bad("C09.key-type-pairing", "RunEndEncoded(%s)" % kname, "run ends of type %s are validated with %s, expected check_run_ends<%s>" % (kname, got, native), "arrow-data/src/data.rs")


def run_stored(ck, F):
    tab = json.load(open(os.path.join(os.path.dirname(__file__), "tables", "c09_checked_operands.json")))
    ck.rule("C09.stored-operands-checked", "in each checked constructor, every value stored into the result (struct literal field / argument of the "
            "unsafe unchecked constructor) that is validated on the reference tree still reaches a branch on which a rejecting exit is control dependent",
            floor=sum(len(v) for v in tab.values()))
    for fid, roles in sorted(tab.items()):
        try:
            fn = F.fn(fid)
        except factsmod.MissingAnchor:
            ck.missing_anchor(fid, "C09.stored-operands-checked")
            continue
        b = Body(fn)
        base = re.sub(r"<.*$", "", fn.get("impl_self", ""))
        rej = flow.reject_blocks(b)
        state = {}
        for bl, kind, ops in flow.result_constructions(b, base, F):
            for role, op in ops:
                l = op_local(op)
                if l is None:
                    continue
                ok = flow.value_is_checked(b, l, rej)
                state[role] = state.get(role, True) and ok
        for role in roles:
            key = "%s#%s" % (fid, role)
            if role not in state:
                ck.bad("C09.stored-operands-checked", key, "%s no longer stores an operand in role `%s` (constructor restructured; refresh rules/tables/c09_checked_operands.json after review)" % (fid, role), "%s:%s" % (fn["file"], fn["line"]))
            elif state[role]:
                ck.ok("C09.stored-operands-checked", key, "flows into a rejecting branch")
            else:
                ck.bad("C09.stored-operands-checked", key, "%s stores `%s` into the result without any validation depending on it (a check was dropped or now tests something else)" % (fid, role), "%s:%s" % (fn["file"], fn["line"]))


def run_anchors(ck, F):
    tab = json.load(open(os.path.join(os.path.dirname(__file__), "tables", "c09_validation_anchors.json")))
    ck.rule("C09.validation-not-bypassed", "in each checked constructor the number of rejecting branches / validating loops that EVERY successful path must pass (counted through the "
            "fallible same-crate helpers it always calls) does not drop below the reference: a validation that becomes conditional (a fast path, an early return, a skipped "
            "scan) is no longer must-pass", floor=len(tab))
    for fid, ref in sorted(tab.items()):
        fn = F.resolve(fid)
        if fn is None:
            ck.missing_anchor(fid, "C09.validation-not-bypassed")
            continue
        n = flow.validation_anchor_total(F, fn)
        if n < ref:
            ck.bad("C09.validation-not-bypassed", fid, "%s: %d must-pass validation anchor(s), the reference tree has %d: some validation can now be bypassed on a path that still "
                   "returns successfully" % (fid, n, ref), "%s:%s" % (fn["file"], fn["line"]))
        else:
            ck.ok("C09.validation-not-bypassed", fid, "%d must-pass validation anchors (reference %d)" % (n, ref))


def run_overflow(ck, F):
    ck.rule("C09.len-offset-overflow", "arrow_data never computes len + offset with a raw addition; it goes through checked_len_plus_offset", floor=7)
    c = F.crate("arrow_data")

    def field_of(b, op, depth=0):
        p = op_place(op)
        if p is None or depth > 4:
            return None
        fs = [e[2] for e in p[1] if isinstance(e, list) and e[0] == "f"]
        if fs:
            return fs[-1]
        ds = b.defs().get(p[0], [])
        if len(ds) == 1 and ds[0][0] == "s" and ds[0][3][0] == "use":
            return field_of(b, ds[0][3][1], depth + 1)
        return None
    for fn in c.fns:
        if "mir" not in fn:
            continue
        b = Body(fn)
        for bb, t in b.calls():
            if (callee(t) or "").endswith("::checked_len_plus_offset"):
                ck.ok("C09.len-offset-overflow", "%s uses checked_len_plus_offset" % fn["id"])
        if fn["id"].endswith("::checked_len_plus_offset"):
            continue
        for bl in range(b.n):
            for s in b.stmts(bl):
                if s[0] == "a" and s[2][0] == "bin" and s[2][1].startswith("Add") and not s[4]:
                    if {field_of(b, s[2][2]), field_of(b, s[2][3])} == {"len", "offset"} and "ArrayData" in (fn.get("impl_self") or ""):
                        ck.bad("C09.len-offset-overflow", "%s raw len+offset" % fn["id"], "raw `len + offset` addition can overflow for adversarial lengths", b.loc(bl))


def run_recursion(ck, F):
    ck.rule("C09.children-validated", "validate_full validates this level (validate_data) and recurses into every child with the result kept; validate_data runs "
            "validate, validate_nulls and validate_values", floor=2)
    from . import disc
    fn = F.resolve("arrow_data::data::ArrayData::validate_full")
    if fn is None:
        ck.missing_anchor("arrow_data::data::ArrayData::validate_full", "C09.children-validated")
    else:
        c = F.crate("arrow_data")
        fns = [fn] + [cl for cl in c.closures_of.get(fn["id"], []) if "mir" in cl]
        b = Body(fn)
        ok_self, _, _ = flow.success_passes(b, re.compile(r"ArrayData::validate_data$"))
        rec = False
        for f in fns:
            fb = Body(f)
            for bb in flow.kept_call_blocks(fb, re.compile(r"ArrayData::validate_full$")):
                rec = True
        if ok_self and rec:
            ck.ok("C09.children-validated", "validate_full", "validate_data on every Ok path; children validated recursively, result kept")
        else:
            ck.bad("C09.children-validated", "validate_full", "validate_full %s" % ("no longer recurses into child_data (or drops the child's result)" if ok_self else "can return Ok without validate_data"),
                   "%s:%s" % (fn["file"], fn["line"]))
    fn = F.resolve("arrow_data::data::ArrayData::validate_data")
    if fn is None:
        ck.missing_anchor("arrow_data::data::ArrayData::validate_data", "C09.children-validated")
    else:
        b = Body(fn)
        missing = [n for n in ("validate", "validate_nulls", "validate_values") if not flow.success_passes(b, re.compile(r"ArrayData::%s$" % n))[0]]
        if missing:
            ck.bad("C09.children-validated", "validate_data", "validate_data can return Ok without %s" % missing, "%s:%s" % (fn["file"], fn["line"]))
        else:
            ck.ok("C09.children-validated", "validate_data", "validate, validate_nulls and validate_values on every Ok path")
    fn = F.resolve("arrow_data::data::ArrayData::try_new")
    if fn is not None:
        b = Body(fn)
        if flow.success_passes(b, re.compile(r"ArrayDataBuilder::build$"))[0]:
            ck.ok("C09.children-validated", "try_new", "every Ok path goes through ArrayDataBuilder::build")
        else:
            ck.bad("C09.children-validated", "try_new", "ArrayData::try_new can return Ok without ArrayDataBuilder::build (the validating path)", "%s:%s" % (fn["file"], fn["line"]))
    fn = F.resolve("arrow_data::data::ArrayDataBuilder::build")
    if fn is None:
        ck.missing_anchor("arrow_data::data::ArrayDataBuilder::build", "C09.children-validated")
    else:
        b = Body(fn)
        val = flow.kept_call_blocks(b, re.compile(r"ArrayData::validate_data$"))
        skip_targets = []
        for sb, tt, ft, neg in flow.guard_edges(b, lambda t: (callee(t) or "").endswith("UnsafeFlag::get")):
            skip_targets.append(ft if neg else tt)
        exits = flow.ok_exits(b)
        reach = b.reachable(0, removed_blocks=val + skip_targets)
        badx = [b.loc(e) for e in exits if e in reach]
        if val and skip_targets and not badx:
            ck.ok("C09.children-validated", "ArrayDataBuilder::build", "Ok only after validate_data, or on the edge where the unsafe skip flag is set")
        else:
            ck.bad("C09.children-validated", "ArrayDataBuilder::build", "build() can return Ok without validate_data although the skip-validation flag is not set (exits %s; validate calls %d, flag tests %d)"
                   % (badx, len(val), len(skip_targets)), "%s:%s" % (fn["file"], fn["line"]))


def run(ck, tier):
    F = factsmod.Facts("ws")
    from . import influence as _infl
    _infl.run(ck, F, 'C09')
    from . import mustpass as _mp
    _mp.run(ck, F, 'C09')
    from . import accum as _acc2
    _acc2.run2(ck, F, 'C09')
    from . import relations as _rel
    _rel.run(ck, F, 'C09')
    from . import guards as _grd
    _grd.run(ck, F, 'C09')
    from . import accum as _acc
    _acc.run(ck, F, 'C09')
    run_recursion(ck, F)
    run_obligations(ck, F)
    run_stored(ck, F)
    run_anchors(ck, F)
    run_inputs(ck, F)
    run_conditional(ck, F)
    run_overflow(ck, F)
    api.must_be_unsafe(ck, F, "C09.unchecked-api-is-unsafe", ["arrow_buffer", "arrow_data", "arrow_array", "arrow_schema", "arrow_row", "arrow_ipc", "arrow_select", "arrow_cast"],
                       UNSAFE_NAME, UNSAFE_EXEMPT, floor=60)
    api.fields_private(ck, F, "C09.representation-private", PRIVATE_ADTS)
    api.run_witnesses(ck, F, "C09.witness", "core.rs.txt", ["arrow_buffer", "arrow_data", "arrow_array", "arrow_schema", "arrow_ipc"])
    ck.floors["C09.witness"] = 18
    ck.note("Decided: the validator routing matrix over all DataType constructors, retention of the per-operand checks of 20 checked constructors, "
            "overflow guard, unsafe-ness of every unchecked/FFI entry point, private representation. Not decided: arithmetic inside each validator.")
    return F.info


VALIDATOR_NAME = re.compile(r"::(validate\w*|check_bounds|check_run_ends|get_valid_child_data|get_single_valid_child_data|typed_offsets|typed_buffer|try_new)$")


def validator_units(F):
    tab = json.load(open(os.path.join(os.path.dirname(__file__), "tables", "c09_validation_anchors.json")))
    units = sorted(tab)
    for fn in F.crate("arrow_data").fns:
        if "mir" in fn and "parent" not in fn and VALIDATOR_NAME.search(fn["id"]) and \
                (fn["id"].startswith("arrow_data::data::ArrayData::") or fn["id"].startswith("arrow_data::byte_view::")):
            units.append(fn["id"])
    return units


def checked_input_table(F):
    out = {}
    for u in validator_units(F):
        fn = F.resolve(u)
        if fn is None:
            continue
        r = flow.checked_inputs(F, fn)
        if len(r) > 1:
            out[u] = {sig: len(names) for sig, names in sorted(r.items())}
    return out


def run_inputs(ck, F):
    tab = json.load(open(os.path.join(os.path.dirname(__file__), "tables", "c09_checked_inputs.json")))
    ck.rule("C09.validator-inputs-checked", "in each validator / checked constructor (with the closures nested in it), every input that decides a rejecting branch on the "
            "reference tree -- an argument, a captured variable or one of their fields, counted per (type, field path) -- still does: a check that stops "
            "looking at one of its operands (`range.start`, `max_value`, the previous offset) is a dropped validation", floor=sum(len(v) - 1 for v in tab.values()))
    for u, sigs in sorted(tab.items()):
        fn = F.resolve(u)
        if fn is None:
            ck.missing_anchor(u, "C09.validator-inputs-checked")
            continue
        got = flow.checked_inputs(F, fn)
        fewer_closures = len(got.get("_closures", ())) < sigs.get("_closures", 0)
        for sig, n in sorted(sigs.items()):
            if sig == "_closures":
                continue
            key = "%s#%s" % (u, sig)
            have = got.get(sig, set())
            if sig.startswith("closure:") and fewer_closures:
                # a closure of the reference tree is gone (replaced by a library call or a helper): its parameters cannot be compared
                ck.ok("C09.validator-inputs-checked", key, "not compared: the unit has fewer closures than on the reference tree")
            elif len(have) >= n:
                ck.ok("C09.validator-inputs-checked", key, "%d input(s) decide a rejecting branch: %s" % (len(have), sorted(have)))
            else:
                ck.bad("C09.validator-inputs-checked", key, "%s: %d input(s) of type/field `%s` decide a rejecting branch (%s); the reference tree has %d: a validation no longer "
                       "looks at one of its operands" % (u, len(have), sig, sorted(have), n), "%s:%s" % (fn["file"], fn["line"]))


def _unit_closures(crate, fn):
    fns, i = [fn], 0
    while i < len(fns):
        fns += [c for c in crate.closures_of.get(fns[i]["id"], []) if "mir" in c]
        i += 1
    return fns[1:]


def unit_profile(F, fn):
    crate = F.crate(fn["id"].lstrip("<").split("::", 1)[0])
    fns, i = [fn], 0
    while i < len(fns):
        fns += [c for c in crate.closures_of.get(fns[i]["id"], []) if "mir" in c]
        i += 1
    out = []
    for f in fns:
        out += flow.guard_profile(Body(f))
    return sorted(out)


def guard_profile_table(F):
    out = {}
    for u in validator_units(F):
        fn = F.resolve(u)
        if fn is not None:
            p = unit_profile(F, fn)
            if p:
                crate_ = F.crate(fn["id"].lstrip("<").split("::", 1)[0])
                out[u] = {"profile": p, "closures": len(_unit_closures(crate_, fn))}
    return out


def run_conditional(ck, F):
    tab = json.load(open(os.path.join(os.path.dirname(__file__), "tables", "c09_guard_profiles.json")))
    ck.rule("C09.validation-not-made-conditional", "for every validator / checked constructor: each rejecting decision runs under some number of enabling conditions (the "
            "non-rejecting branches it is control dependent on: a loop being entered, a type arm, `if !all_null`); for every k the number of rejecting decisions that need "
            "at most k such conditions has not dropped below the reference tree: a new fast path, early `continue` or skip condition in front of an existing check lowers it",
            floor=len(tab))
    for u, ref in sorted(tab.items()):
        fn = F.resolve(u)
        if fn is None:
            ck.missing_anchor(u, "C09.validation-not-made-conditional")
            continue
        cur = unit_profile(F, fn)
        crate_ = F.crate(fn["id"].lstrip("<").split("::", 1)[0])
        ncl = len(_unit_closures(crate_, fn))
        if isinstance(ref, dict):
            ref_ncl, ref = ref["closures"], ref["profile"]
        else:
            ref_ncl = ncl
        if ncl != ref_ncl or flow.calls_new_function(F, fn):
            ck.ok("C09.validation-not-made-conditional", u, "not compared: the unit was restructured (closures %d -> %d, or a new helper is called)" % (ref_ncl, ncl))
            continue
        worst = None
        for k in sorted(set(ref)):
            r = sum(1 for d in ref if d <= k)
            c = sum(1 for d in cur if d <= k)
            if c < r and worst is None:
                worst = (k, r, c)
        if worst is None:
            ck.ok("C09.validation-not-made-conditional", u, "guard-depth profile %s (reference %s)" % (cur, ref))
        else:
            ck.bad("C09.validation-not-made-conditional", u, "%s: %d rejecting decision(s) run under at most %d enabling condition(s), the reference tree has %d (profiles: now %s, "
                   "reference %s): an existing check was put behind a new condition (fast path / skip / early continue) or removed" % (u, worst[2], worst[0], worst[1], cur, ref),
                   "%s:%s" % (fn["file"], fn["line"]))
