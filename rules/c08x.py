"""C08 — the Utf8View decoders of Parquet check value boundaries where their offset-buffer siblings do.

For every BYTE_ARRAY encoding there are two Arrow decoders: one filling an OffsetBuffer (Utf8 / LargeUtf8) and one filling a ViewBuffer
(Utf8View).  UTF-8 is validated over a whole run of bytes at once; that is only sound if, in addition, every value starts at a character
boundary (otherwise ["a\\xC2", "\\x80b"] passes: the concatenation is valid, neither value is).  The offset-buffer decoders get this from
`OffsetBuffer::try_push(data, validate_utf8)`.  Sibling rule: where the offset-buffer decoder of an encoding has per-value boundary
evidence, the view decoder of the same encoding has it too (a continuation-byte test on a byte of the value -- `(b as i8) < -0x40`,
`b & 0xC0 == 0x80`, `is_char_boundary`, `try_push` with the validate flag -- inside a loop or closure)."""
import re
from . import flow
from .mirlib import Body, callee, op_const, op_local

SCOPE = re.compile(r"^parquet::arrow::array_reader::(byte_array|byte_view_array)::")
RUN_VALIDATION = re.compile(r"check_valid_utf8$")
EXEMPT = {
    "parquet::arrow::array_reader::byte_view_array::ByteViewArrayDecoderPlain::read_impl":
        "the 4-byte length prefixes between two values are ASCII (length < 128) or the validated range is cut at them, so no character can straddle two values",
}


def _evidence(F, fn):
    crate = F.crate("parquet")
    fns, i = [fn], 0
    while i < len(fns):
        fns += [c for c in crate.closures_of.get(fns[i]["id"], []) if "mir" in c]
        i += 1
    for f in fns:
        b = Body(f)
        for bb, t in b.calls():
            n = callee(t) or ""
            if n.endswith("::is_char_boundary"):
                return "is_char_boundary"
            if re.search(r"OffsetBuffer(::<[^>]*>)?::try_push$", n):
                # try_push(data, validate_utf8): the boundary check happens only if the flag is passed on, not a literal `false`
                k = op_const(t["args"][2]) if len(t["args"]) > 2 else None
                if k is None or "false" not in str(k[0] if isinstance(k, (list, tuple)) else k):
                    return "try_push with the validate flag"
        for bl in range(b.n):
            for s in b.stmts(bl):
                if s[0] != "a" or s[2][0] != "bin":
                    continue
                for o in (s[2][2], s[2][3]):
                    k = op_const(o)
                    if k is None:
                        continue
                    txt = str(k[0] if isinstance(k, (list, tuple)) else k)
                    if s[2][1] in ("Lt", "Ge", "Le", "Gt") and re.match(r"^-6[45]_i8$", txt):
                        return "continuation-byte test (i8 < -0x40)"
                    if s[2][1] == "BitAnd" and re.match(r"^(192|0xc0)_u8$", txt, re.I):
                        return "continuation-byte test (& 0xC0)"
    return None


def run(ck, F, rule="C08.run-validated-utf8-checks-value-boundaries"):
    ck.rule(rule, "every Parquet byte-array decoder (offset-buffer and view flavour) that validates UTF-8 over a whole run of values also checks that each value starts "
            "at a character boundary (OffsetBuffer::try_push with the validate flag, a continuation-byte test, is_char_boundary): whole-run validation alone accepts "
            "a character that straddles two values", floor=6)
    crate = F.crate("parquet")
    seen = set()
    for fn in crate.fns:
        if "mir" not in fn or not SCOPE.search(flow.norm(fn["id"])):
            continue
        root = fn
        while root.get("parent"):
            root = F.fn(root["parent"], required=False) or {}
        if not root or root["id"] in seen:
            continue
        fns, i = [root], 0
        while i < len(fns):
            fns += [c for c in crate.closures_of.get(fns[i]["id"], []) if "mir" in c]
            i += 1
        if not any(RUN_VALIDATION.search(callee(t) or "") for f in fns if "mir" in f for _, t in Body(f).calls()):
            continue
        seen.add(root["id"])
        key = flow.norm(root["id"])
        ev = _evidence(F, root)
        if key in EXEMPT:
            ck.ok(rule, key, "exempt: " + EXEMPT[key])
        elif ev:
            ck.ok(rule, key, ev)
        else:
            ck.bad(rule, key, "%s validates UTF-8 over a run of values and never checks that the individual values start at character boundaries: values such as "
                   "[\"a\\xC2\", \"\\x80b\"] are accepted and come back as a string array whose values are not valid UTF-8 (debug builds panic in into_array)" % root["id"],
                   "%s:%s" % (root["file"], root["line"]))
