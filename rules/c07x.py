"""C07 — a page is flagged as a null page only when none of its values is non-null.

`num_page_nulls` counts null *values* (levels below the maximum definition level).  The page is a null page iff that equals the number of
levels in the page (`num_buffered_values`).  Comparing it with `num_buffered_rows` mixes units: for a repeated column one row can hold
several nulls, so a page with rows [[null, null], [5]] (2 rows, 2 nulls) would be written with empty min/max and `null_pages = true`,
and every reader that prunes with the column index drops the row holding 5."""
from . import flow
from .mirlib import Body

FN = "parquet::column::writer::GenericColumnWriter::<'a, E>::update_column_offset_index"


def run(ck, F, rule="C07.null-page-counts-values"):
    ck.rule(rule, "in update_column_offset_index the null_page flag is computed from the page's null count and its number of values (levels), not from its number of "
            "rows", floor=1)
    fn = F.resolve(FN)
    if fn is None:
        ck.missing_anchor(FN, rule)
        return
    b = Body(fn)
    loc = [pl[0] for nm, pl in b.dbg if nm == "null_page" and isinstance(pl, list) and not pl[1]]
    if not loc:
        ck.bad(rule, "null_page", "no local `null_page` in update_column_offset_index (anchor moved)", "%s:%s" % (fn["file"], fn["line"]))
        return
    roots = flow.influence_roots(b, loc[0])
    fields = {r[-1] for r in roots if r[0] == "param" and len(r) > 2}
    if "num_page_nulls" in fields and "num_buffered_values" in fields and "num_buffered_rows" not in fields:
        ck.ok(rule, "null_page", "decided by %s" % sorted(fields))
    else:
        ck.bad(rule, "null_page", "update_column_offset_index decides null_page from %s: the null count (null values) must be compared with the number of values in the "
               "page (num_buffered_values), never with its number of rows -- for a repeated column a page holding non-null values is otherwise written as a null page and "
               "pruned by readers" % sorted(fields), "%s:%s" % (fn["file"], fn["line"]))
