"""C07 — a page is flagged as a null page only when none of its values is non-null.

`num_page_nulls` counts null *values* (levels below the maximum definition level).  The page is a null page iff that equals the number of
levels in the page (`num_buffered_values`).  Comparing it with `num_buffered_rows` mixes units: for a repeated column one row can hold
several nulls, so a page with rows [[null, null], [5]] (2 rows, 2 nulls) would be written with empty min/max and `null_pages = true`,
and every reader that prunes with the column index drops the row holding 5."""
from . import flow
from .mirlib import Body

FN = "parquet::column::writer::GenericColumnWriter::<'a, E>::update_column_offset_index"


def run(ck, F, rule="C07.null-page-counts-values"):
    ck.rule(rule, "in update_column_offset_index the null_page flag is computed from the page's null count and its number of values (levels), not from its number of "
            "rows", floor=1)
    fn = F.resolve(FN)
    if fn is None:
        ck.missing_anchor(FN, rule)
        return
    b = Body(fn)
    loc = [pl[0] for nm, pl in b.dbg if nm == "null_page" and isinstance(pl, list) and not pl[1]]
    if not loc:
        ck.bad(rule, "null_page", "no local `null_page` in update_column_offset_index (anchor moved)", "%s:%s" % (fn["file"], fn["line"]))
        return
    roots = flow.influence_roots(b, loc[0])
    fields = {r[-1] for r in roots if r[0] == "param" and len(r) > 2}
    if "num_page_nulls" in fields and "num_buffered_values" in fields and "num_buffered_rows" not in fields:
        ck.ok(rule, "null_page", "decided by %s" % sorted(fields))
    else:
        ck.bad(rule, "null_page", "update_column_offset_index decides null_page from %s: the null count (null values) must be compared with the number of values in the "
               "page (num_buffered_values), never with its number of rows -- for a repeated column a page holding non-null values is otherwise written as a null page and "
               "pruned by readers" % sorted(fields), "%s:%s" % (fn["file"], fn["line"]))


def run_exact_polarity(ck, F, rule="C07.exact-flag-polarity"):
    import re
    from .mirlib import callee, op_local
    ck.rule(rule, "wherever statistics are rebuilt (thrift decoding, conversions), `with_min_is_exact(x)` takes x from an `is_min_value_exact` source and "
            "`with_max_is_exact(x)` from an `is_max_value_exact` source, never from the opposite one: a swapped flag reports a truncated bound as attained", floor=4)
    crate = F.crate("parquet")
    for fn in crate.fns:
        if "mir" not in fn:
            continue
        b = Body(fn)
        for bb, t in b.calls():
            m = re.search(r"with_(max|min)_is_exact$", callee(t) or "")
            if not m or len(t["args"]) < 2:
                continue
            l = op_local(t["args"][1])
            if l is None:
                continue
            side = m.group(1)
            other = "min" if side == "max" else "max"
            fields = set()
            for r in flow.influence_roots(b, l):
                for x in r[2:]:
                    fields.add(str(x))
            # field names read anywhere in the backward slice (the statistics struct is usually a local bound by a pattern, not a parameter)
            from .mirlib import op_place, rvalue_operands
            locs, calls = b.back_slice(l)
            for x in locs:
                for d in b.defs().get(x, []):
                    if d[0] != "s":
                        continue
                    ps = [op_place(o) for o in rvalue_operands(d[3])]
                    if d[3][0] in ("ref", "rawptr"):
                        ps.append(d[3][2])
                    for pl in ps:
                        if pl:
                            for e in pl[1]:
                                if isinstance(e, list) and e[0] == "f" and e[2]:
                                    fields.add(str(e[2]))
            own = any(re.search(r"is_%s(_value)?_exact" % side, f) for f in fields)
            opp = any(re.search(r"is_%s(_value)?_exact" % other, f) for f in fields)
            key = "%s -> with_%s_is_exact" % (flow.norm(fn["id"]), side)
            if opp and not own:
                ck.bad(rule, key, "%s passes a value derived from is_%s_value_exact to with_%s_is_exact: the exactness flags of the two bounds are swapped" % (fn["id"], other, side), b.loc(bb))
            elif own or opp:
                ck.ok(rule, key, "flag comes from the matching field")
            else:
                ck.ok(rule, key, "flag not taken from a statistics field (constant or computed)", nontrivial=False)
