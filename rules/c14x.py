"""C14 — a tolerated "need more input" error must not leave half a record behind.

A push decoder that treats an error of a callee as "the chunk ended here, come back with more bytes" (the error reaches an Ok exit instead of
being returned) retries that unit of work from its beginning on the next call.  That is only independent of the chunking if the callee is
failure-atomic: it must not have appended anything by the time it can still fail, or the tolerating path must roll the callee's state back.
Non-atomicity is visible in the callee's shape: a fallible call that mutates state reachable from `self` lies on a cycle, or is followed on
some path by another fallible call (so an Err exit is reachable after a completed mutation)."""
import re
from . import flow, disc
from .mirlib import Body, callee, op_local, operand_locals

# (instance id, tolerating function, callee whose error is tolerated, predicate that classifies the error as "incomplete")
SITES = [
    ("avro-single-object-body", "arrow_avro::reader::Decoder::decode", re.compile(r"RecordDecoder::decode$"), re.compile(r"is_incomplete_data$")),
]
ROLLBACK = re.compile(r"rollback|truncate|restore|discard|reset_row|rewind", re.I)


def _mutating_fallible_calls(F, b):
    """blocks of calls that return a Result, are kept, and receive a `&mut` argument derived from self"""
    selft = b.taint({1}, through_calls=True)
    out = []
    for bb, t in b.calls():
        if disc.result_err_type(t.get("rt", "")) is None:
            continue
        tys = t.get("aty") or []
        mut = False
        for a, ty in zip(t["args"], tys):
            if ty.startswith("&mut ") and any(l in selft for l in operand_locals(a)):
                mut = True
        if mut:
            out.append(bb)
    return out


def non_atomic_witness(F, fn):
    """(block of a completed mutation, block of a later fallible call) or None"""
    b = Body(fn)
    muts = _mutating_fallible_calls(F, b)
    fallible = [bb for bb, t in b.calls() if disc.result_err_type(t.get("rt", "")) is not None and not re.search(r"Try>::branch$|FromResidual", callee(t) or "")]
    for m in muts:
        succ = b.term(m).get("t")
        if succ is None:
            continue
        r = b.reachable(succ)
        for f in fallible:
            if f in r:       # includes m itself when m is on a cycle
                return (m, f)
    return None


def run(ck, F, rule="C14.tolerated-error-is-atomic"):
    ck.rule(rule, "where a push decoder turns a callee's error into 'need more input' (Ok) and retries the unit later, the callee cannot fail after it has "
            "already appended state (a mutating fallible call on a cycle, or followed by another fallible call), unless the tolerating path rolls it back", floor=len(SITES))
    for iid, fid, callee_re, pred_re in SITES:
        fn = F.resolve(fid)
        if fn is None:
            ck.missing_anchor(fid, rule)
            continue
        b = Body(fn)
        site = [(bb, t) for bb, t in b.calls() if callee_re.search(callee(t) or "")]
        preds = [bb for bb, t in b.calls() if pred_re.search(callee(t) or "")]
        if not site:
            ck.bad(rule, iid, "%s no longer calls %s (anchor moved)" % (fid, callee_re.pattern), "%s:%s" % (fn["file"], fn["line"]))
            continue
        oks = set(flow.ok_exits(b))
        tolerated = False
        rollback = False
        for pb in preds:
            # the classification's "true" side reaches an Ok exit without returning the error
            t = b.term(pb)
            nxt = t.get("t")
            sw = nxt if nxt is not None and b.term(nxt)["k"] == "switch" else None
            if sw is None:
                continue
            for tgt in b.succ(sw):
                r = b.reachable(tgt, removed_blocks=list(flow.err_exits(b)))
                if oks & r:
                    tolerated = True
                    for x in r:
                        tx = b.term(x)
                        if tx["k"] == "call" and ROLLBACK.search(callee(tx) or ""):
                            rollback = True
        if not tolerated:
            ck.ok(rule, iid, "errors of %s are returned, not tolerated" % callee_re.pattern)
            continue
        g = F.resolve(callee(site[0][1]))
        if g is None or "mir" not in g:
            ck.missing_anchor(callee(site[0][1]), rule)
            continue
        w = non_atomic_witness(F, g)
        if w is None or rollback:
            ck.ok(rule, iid, "callee is failure-atomic" if w is None else "the tolerating path rolls the callee back")
        else:
            gb = Body(g)
            ck.bad(rule, iid, "%s treats an `incomplete data` error of %s as 'need more input' and retries the record from its start, but %s can fail at %s after the "
                   "mutating call at %s has completed (earlier fields already appended): a record split across two decode() calls leaves the earlier columns one row "
                   "longer" % (fid, g["id"], g["id"], gb.loc(w[1]), gb.loc(w[0])), b.loc(site[0][0]))
