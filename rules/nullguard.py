"""NULL-GUARD — value accesses that are validity-guarded on the reference tree stay guarded.

In the listed functions every `array.value(i)` / `value_unchecked(i)` is control dependent on a validity
test (is_valid / is_null / null_count ...), or sits in a closure handed to `bool::then` whose receiver
is such a test.  Dropping the guard makes the bytes under null slots part of the result (C02: 'arbitrary
bytes under null slots').  Functions that no longer access values directly (rewritten over iterators)
pass trivially.  Reference: rules/tables/null_guarded.json (generator: tools/gen_nullguard_table.py)."""
import json, os, re
from . import flow
from .mirlib import Body, callee, op_local

VAL = re.compile(r"::(value|value_unchecked|value_as_string)$")
NUL = re.compile(r"::(is_valid|is_null|is_some|is_none|null_count|is_nullable|logical_null_count)$")
THEN = re.compile(r"bool>::then$|bool::then$|<impl bool>::then$")


def _nsw(body, sb):
    calls, _ = flow.switch_discr_sources(body, sb)
    return any(NUL.search(flow.norm(callee(c) or "")) for c in calls)


def sites(F, fn):
    """[(loc, guarded)] for every value access in fn (closures are separate functions)"""
    b = Body(fn)
    out = []
    vs = [bb for bb, t in b.calls() if VAL.search(flow.norm(callee(t) or "")) and "arrow" in (callee(t) or "")]
    if not vs:
        return out
    closure_guarded = False
    if fn["kind"] == "Closure":
        for pb, blk, loc in flow.closure_creations(F, fn):
            for (cb, ct, ai) in flow.value_flows_to_calls(pb, loc):
                if THEN.search(callee(ct) or "") and ct["args"]:
                    l = op_local(ct["args"][0])
                    if l is not None:
                        _, calls = pb.back_slice(l)
                        if any(NUL.search(flow.norm(callee(c) or "")) for _, c in calls):
                            closure_guarded = True
                if flow.control_dependent_on(pb, blk, _nsw):
                    closure_guarded = True
    # `valid.then_some(array.value(i))`: evaluated eagerly, masked by the validity bit
    masked = set()
    for bb, t in b.calls():
        if re.search(r"bool>::then_some$|bool::then_some$|<impl bool>::then_some$", callee(t) or "") and len(t["args"]) == 2:
            l0, l1 = op_local(t["args"][0]), op_local(t["args"][1])
            if l0 is None or l1 is None:
                continue
            _, c0 = b.back_slice(l0)
            if not any(NUL.search(flow.norm(callee(c) or "")) for _, c in c0):
                continue
            _, c1 = b.back_slice(l1)
            for cb, c in c1:
                if VAL.search(flow.norm(callee(c) or "")):
                    masked.add(cb)
    for s in vs:
        out.append((b.loc(s), closure_guarded or s in masked or bool(flow.control_dependent_on(b, s, _nsw))))
    return out


def root_sites(F, crate, root_id):
    """all value-access sites of a root function and its closures"""
    c = F.crate(crate)
    out = []
    for fn in c.by_id.get(root_id, []) + c.closures_of.get(root_id, []):
        if "mir" in fn:
            out += sites(F, fn)
    return out


def infer(F, crates):
    rows = []
    for cn in crates:
        c = F.crate(cn)
        for fn in c.fns:
            if "mir" not in fn or fn["kind"] == "Closure":
                continue
            ss = root_sites(F, cn, fn["id"])
            if ss and all(g for _, g in ss):
                rows.append(flow.norm(fn["id"]))
    return sorted(set(rows))


def load_table():
    return json.load(open(os.path.join(os.path.dirname(__file__), "tables", "null_guarded.json")))


def check(ck, F, rule, table, floor):
    ck.rule(rule, "in the listed functions every direct value access is validity-guarded (reference table generated from the tree and reviewed)", floor)
    for fid in table:
        fn = F.resolve(fid)
        if fn is None or "mir" not in fn:
            ck.ok(rule, fid, "function no longer exists (no direct value access left)", nontrivial=False)
            continue
        cname = fn["id"].lstrip("<").split("::", 1)[0]
        ss = root_sites(F, cname, fn["id"])
        bad = [loc for loc, g in ss if not g]
        if bad:
            ck.bad(rule, fid, "%s reads array values at %s without the validity test that used to guard every such access: bytes under null slots now reach the result" % (fid, bad), bad[0])
        else:
            ck.ok(rule, fid, "%d value access(es), all guarded" % len(ss))
