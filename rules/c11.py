"""C11 — row format (structural clauses).

1. table agreement: every DataType constructor for which RowConverter::supports_datatype is definitely
   true is routed to an implementation by Codec::new, row_lengths, encode_column and decode_column;
2. UTF-8 on decode: a RowConfig with validate_utf8 = false is built only in `unsafe fn`s or at the audited
   converter-internal site; the flag is propagated (OR-ed) by Rows::push and convert_rows; with the flag
   set, decode_string does not reach the unchecked string constructor and decode_string_view selects
   the validating decoder;
3. convert_rows / Rows::push assert that rows come from this converter (Arc::ptr_eq on the fields) before
   the unsafe decode."""
import re
from . import facts as factsmod, flow, dtm
from .mirlib import Body, callee, op_local, op_place, rvalue_operands

TABLES = [("Codec::new", "arrow_row::Codec::new", (1, ("data_type",))), ("row_lengths", "arrow_row::row_lengths", "call:Array::data_type"),
          ("encode_column", "arrow_row::encode_column", "call:Array::data_type"), ("decode_column", "arrow_row::decode_column", "call:Clone::clone")]
FALSE_FLAG_OK = {
    "arrow_row::RowConverter::empty_rows": "rows appended later come from this converter's own encoder (valid UTF-8 by construction) or from Rows::push, which ORs the pushed row's flag",
}


def run(ck, tier):
    F = factsmod.Facts("ws")
    from . import influence as _infl
    _infl.run(ck, F, 'C11')
    from . import mustpass as _mp
    _mp.run(ck, F, 'C11')
    from . import accum as _acc2
    _acc2.run2(ck, F, 'C11')
    from . import relations as _rel
    _rel.run(ck, F, 'C11')
    from . import guards as _grd
    _grd.run(ck, F, 'C11')
    from . import accum as _acc
    _acc.run(ck, F, 'C11')
    from . import arms
    stab = [e for e in arms.load_sink_table() if e["fn"].startswith("arrow_row::")]
    ck.rule("C11.sink-uniform", "both arms of LengthTracker::extend_offsets let `initial_offset` influence the offsets they push AND the total they return (appending "
            "to non-empty Rows); both UnionMode arms of decode_column consume the rows they were given", floor=len(stab))
    arms.check_sinks(ck, F, "C11.sink-uniform", stab)
    from . import c11x
    c11x.run_descending(ck, F)
    c11x.run_type_ids(ck, F)
    c11x.run_rows_buffer(ck, F)
    from . import pairs as _pairs
    _pairs.check_cross(ck, F, "C11.raw-validity-needs-offset", ["arrow_row"], 0)
    ck.rule("C11.table-agreement", "every DataType constructor that supports_datatype definitely accepts is routed by Codec::new, row_lengths, encode_column and decode_column", floor=30)
    variants = dtm.enum_variants(F, "arrow_schema::datatype::DataType")
    cache = {}
    bodies = {}
    try:
        for n, fid, key in TABLES:
            bodies[n] = (Body(F.fn(fid)), key)
    except factsmod.MissingAnchor as e:
        ck.missing_anchor(str(e), "C11.table-agreement")
        bodies = {}
    if bodies:
        for name, d in variants:
            sup = dtm.eval_bool(F, "arrow_row::RowConverter::supports_datatype", d, cache=cache)
            if sup != {True}:
                continue
            res = {n: dtm.supported_under(b, {key: d}) for n, (b, key) in bodies.items()}
            bad = [n for n, v in res.items() if v is not True]
            if bad:
                ck.bad("C11.table-agreement", name, "supports_datatype(%s) is true but %s do(es) not route it to an implementation (%s)" % (name, bad, res), "arrow-row/src/lib.rs")
            else:
                ck.ok("C11.table-agreement", name, "routed in all four tables")

    ck.rule("C11.utf8-flag-false-sites", "RowConfig { validate_utf8: false } is constructed only inside `unsafe fn`s or at the audited converter-internal site", floor=2)
    ck.rule("C11.utf8-flag-propagated", "Rows::push and convert_rows OR the incoming row's validate_utf8 into the flag they pass on", floor=2)
    c = F.crate("arrow_row")
    adt = F.adt("arrow_row::RowConfig")
    fidx = [f["name"] for f in adt["variants"][0]["fields"]].index("validate_utf8")
    for fn in c.fns:
        if "mir" not in fn:
            continue
        for bl in fn["mir"]["blocks"]:
            for s in bl["s"]:
                if s[0] == "a" and s[2][0] == "agg" and s[2][1][0] == "adt" and s[2][1][1] == "arrow_row::RowConfig":
                    op = s[2][2][fidx]
                    root = fn.get("parent") if fn["kind"] == "Closure" else fn["id"]
                    if op[0] == "k" and op[1] == "false":
                        if fn.get("unsafe"):
                            ck.ok("C11.utf8-flag-false-sites", root, "inside unsafe fn")
                        elif root in FALSE_FLAG_OK:
                            ck.ok("C11.utf8-flag-false-sites", root, "audited: " + FALSE_FLAG_OK[root])
                        else:
                            ck.bad("C11.utf8-flag-false-sites", root, "%s builds a RowConfig with validate_utf8 = false in safe code: rows of unknown origin would be decoded with from_utf8_unchecked" % root,
                                   "%s:%s" % (fn["file"], s[3]))
    # propagation
    for iid, fid in (("rows-push", "arrow_row::Rows::push"), ("convert_rows", "arrow_row::RowConverter::convert_rows")):
        try:
            fns = [F.fn(fid)] + [cl for cl in c.closures_of.get(F.fn(fid)["id"], []) if "mir" in cl]
        except factsmod.MissingAnchor:
            ck.missing_anchor(fid, "C11.utf8-flag-propagated")
            continue
        ok = False
        for fn in fns:
            b = Body(fn)
            src = flow.locals_reading_field(b, "validate_utf8")
            tainted = b.taint(src)
            for bl in range(b.n):
                for s in b.stmts(bl):
                    if s[0] == "a" and s[1][1] and s[2][0] == "bin" and s[2][1] == "BitOr" and any(l in tainted for op in rvalue_operands(s[2]) for l in ([op_local(op)] if op_local(op) is not None else [])):
                        ok = True
        if ok:
            ck.ok("C11.utf8-flag-propagated", iid, "flag |= row.config.validate_utf8")
        else:
            ck.bad("C11.utf8-flag-propagated", iid, "%s no longer ORs the row's validate_utf8 into the propagated flag: rows parsed from untrusted bytes lose their 'needs validation' mark" % fid, "%s:%s" % (fns[0]["file"], fns[0]["line"]))

    ck.rule("C11.decode-validates", "with validate_utf8 set, decode_string does not reach the unchecked string constructor and decode_string_view selects the validating decoder", floor=2)
    try:
        b = Body(F.fn("arrow_row::variable::decode_string"))
        sw = [sb for sb in range(b.n) if b.bool_switch(sb) and op_local(b.bool_switch(sb)[0]) is not None and 3 in flow.origin_locals(b, op_local(b.bool_switch(sb)[0]))]
        unchecked = [bb for bb, t in b.calls() if (callee(t) or "").endswith("::new_unchecked")]
        good = False
        for sb in sw:
            _, tt, ft = b.bool_switch(sb)
            if unchecked and not (b.reachable(tt) & set(unchecked)) and (b.reachable(ft) & set(unchecked)):
                good = True
        if good:
            ck.ok("C11.decode-validates", "decode_string", "new_unchecked reachable only on the validate_utf8 = false edge")
        else:
            ck.bad("C11.decode-validates", "decode_string", "decode_string reaches GenericStringArray::new_unchecked although validate_utf8 is set (switches on the flag: %d, unchecked sites: %d)" % (len(sw), len(unchecked)), "arrow-row/src/variable.rs")
        b = Body(F.fn("arrow_row::variable::decode_string_view"))
        good = False
        for sb in range(b.n):
            bs = b.bool_switch(sb)
            if not bs or op_local(bs[0]) is None or 3 not in flow.origin_locals(b, op_local(bs[0])):
                continue
            _, tt, ft = bs
            t_calls = [t for bb, t in b.calls() if bb in b.reachable(tt, removed_blocks=[ft]) and "decode_binary_view_inner" in (callee(t) or "")]
            if any((t["f"].get("ga") or [""])[0] == "true" for t in t_calls) and not any((t["f"].get("ga") or [""])[0] == "false" and bb_ in b.reachable(tt, removed_blocks=[ft]) for bb_, t in b.calls() if "decode_binary_view_inner" in (callee(t) or "") and bb_ not in b.reachable(ft, removed_blocks=[tt])):
                good = True
        if good:
            ck.ok("C11.decode-validates", "decode_string_view", "validate_utf8 selects decode_binary_view_inner::<true>")
        else:
            ck.bad("C11.decode-validates", "decode_string_view", "validate_utf8 = true no longer selects the validating view decoder", "arrow-row/src/variable.rs")
    except factsmod.MissingAnchor as e:
        ck.missing_anchor(str(e), "C11.decode-validates")

    ck.rule("C11.child-options-derived", "every SortOptions that Codec::new builds for a child converter (descending: false) derives nulls_first from BOTH the parent's "
            "nulls_first and descending flags (the parent inverts the child's bytes as a whole, so nulls_first must be pre-flipped); siblings: dictionary, list, struct, run-end", floor=4)
    try:
        fn = F.fn("arrow_row::Codec::new")
        b = Body(fn)
        so = F.adt("arrow_schema::SortOptions")
        names = [f["name"] for f in so["variants"][0]["fields"]]
        di, ni = names.index("descending"), names.index("nulls_first")
        k = 0
        for bl in range(b.n):
            for st in b.stmts(bl):
                if st[0] == "a" and st[2][0] == "agg" and st[2][1][0] == "adt" and st[2][1][1] == "arrow_schema::SortOptions":
                    ops = st[2][2]
                    if not (ops[di][0] == "k" and ops[di][1] == "false"):
                        continue
                    k += 1
                    l = op_local(ops[ni])
                    fields = set()
                    if l is not None:
                        seen, _ = b.back_slice(l)
                        for x in seen:
                            for d in b.defs().get(x, []):
                                if d[0] == "s":
                                    for op in rvalue_operands(d[3]):
                                        pl = op_place(op)
                                        if pl is not None:
                                            for e in pl[1]:
                                                if isinstance(e, list) and e[0] == "f" and e[2] in ("nulls_first", "descending"):
                                                    fields.add(e[2])
                    key = "Codec::new SortOptions#%d" % k
                    if fields == {"nulls_first", "descending"}:
                        ck.ok("C11.child-options-derived", key, "nulls_first = f(nulls_first, descending)")
                    else:
                        ck.bad("C11.child-options-derived", key, "a child converter's SortOptions at %s:%s derives nulls_first from %s only: with descending = true nulls of that nested "
                               "type sort on the wrong side" % (fn["file"], st[3], sorted(fields) or "a constant"), "%s:%s" % (fn["file"], st[3]))
    except factsmod.MissingAnchor as e:
        ck.missing_anchor(str(e), "C11.child-options-derived")

    ck.rule("C11.signed-encoding", "every signed fixed-width encoding toggles the sign bit in encode and decode (two's-complement order != byte order), and the composite "
            "interval encodings delegate every signed component to the primitive encoding (no raw to_be_bytes/from_be_bytes)", floor=14)
    SIGNED = ["i8", "i16", "i32", "i64", "i128", "arrow_buffer::i256", "arrow_buffer::bigint::i256"]
    COMPOSITE = {"arrow_buffer::IntervalDayTime": "arrow_buffer::interval::IntervalDayTime", "arrow_buffer::interval::IntervalDayTime": "arrow_buffer::interval::IntervalDayTime",
                 "arrow_buffer::IntervalMonthDayNano": "arrow_buffer::interval::IntervalMonthDayNano", "arrow_buffer::interval::IntervalMonthDayNano": "arrow_buffer::interval::IntervalMonthDayNano"}
    for im in c.impls:
        if im.get("trait") != "arrow_row::fixed::FixedLengthEncoding":
            continue
        ty = im["self_ty"]
        for meth in ("encode", "decode"):
            item = [i for i in im["items"] if i.split("::")[-1] == meth]
            if not item:
                continue
            fn = F.fn(item[0], required=False)
            if fn is None or "mir" not in fn:
                continue
            b = Body(fn)
            key = "%s::%s" % (ty, meth)
            names = [flow.norm(callee(t) or "") for _, t in b.calls()]
            if ty in SIGNED:
                xor = any(st[0] == "a" and st[2][0] == "bin" and st[2][1] == "BitXor" and any(op[0] == "k" and re.match(r"^(128|0x80)_u8$", op[1]) for op in (st[2][2], st[2][3]))
                          for bl in range(b.n) for st in b.stmts(bl))
                deleg = any(n.endswith("FixedLengthEncoding::" + meth) or re.search(r"as arrow_row::fixed::FixedLengthEncoding>::%s$" % meth, callee(t) or "") for n, (_, t) in zip(names, b.calls()))
                if xor or deleg:
                    ck.ok("C11.signed-encoding", key, "sign bit toggled" if xor else "delegates to a signed encoding")
                else:
                    ck.bad("C11.signed-encoding", key, "%s for the signed type %s does not toggle the sign bit: negative values sort after positive ones" % (meth, ty), "%s:%s" % (fn["file"], fn["line"]))
            elif ty in COMPOSITE:
                try:
                    adt = F.adt(COMPOSITE[ty])
                    nfields = len(adt["variants"][0]["fields"])
                except factsmod.MissingAnchor:
                    nfields = None
                dels = [t for _, t in b.calls() if re.search(r"FixedLengthEncoding>::%s$|FixedLengthEncoding::%s$" % (meth, meth), callee(t) or "")]
                raw = [n for n in names if re.search(r"::(to_be_bytes|from_be_bytes|to_le_bytes|from_le_bytes)$", n)]
                if nfields is not None and len(dels) == nfields and not raw:
                    ck.ok("C11.signed-encoding", key, "%d components, each through the primitive signed encoding" % nfields)
                else:
                    ck.bad("C11.signed-encoding", key, "%s of %s handles %s component(s) through the signed primitive encoding, expected %s, raw byte conversions: %s - a component "
                           "written without the sign-bit toggle orders negative values after positive ones" % (meth, ty, len(dels), nfields, raw), "%s:%s" % (fn["file"], fn["line"]))

    ck.rule("C11.same-converter-asserted", "convert_rows and Rows::push assert Arc::ptr_eq(row.config.fields, self fields) (the safety argument of the unsafe decode)", floor=2)
    for iid, fid in (("rows-push", "arrow_row::Rows::push"), ("convert_rows", "arrow_row::RowConverter::convert_rows")):
        fns = [F.fn(fid)] + [cl for cl in c.closures_of.get(F.fn(fid)["id"], []) if "mir" in cl]
        ok = False
        for fn in fns:
            b = Body(fn)
            pe = [bb for bb, t in b.calls() if re.search(r"Arc::<T, A>::ptr_eq$", callee(t) or "")]
            rej = flow.reject_blocks(b)
            for p in pe:
                if any(x in b.reachable(p) for x in rej):
                    ok = True
        if ok:
            ck.ok("C11.same-converter-asserted", iid, "ptr_eq test with a panicking edge")
        else:
            ck.bad("C11.same-converter-asserted", iid, "%s no longer asserts that the row was produced by this converter" % fid, "%s:%s" % (fns[0]["file"], fns[0]["line"]))
    ck.note("Decided: routing agreement of the four row-format tables, provenance and propagation of the validate_utf8 flag, validating decode when the flag is set, "
            "same-converter assertion. Not decided: order preservation, injectivity, inversion (value level).")
    return F.info
