"""C08 — untrusted bytes yield an error or valid data (structural clauses).

1. IPC: every unchecked construction in the array decoder is behind the UnsafeFlag (control dependent
   on, or parameterised by, UnsafeFlag::get()), and the flag can only be raised in `unsafe` code;
2. inventory: in the decoders of untrusted input an unsafe unchecked constructor is called only from the
   audited (function, constructor) pairs;
3. allocation bound: a size decoded from the wire (thrift list/length varints, footer length, page header
   sizes) never reaches an allocation without `min(..)` against an independent bound or a preceding
   fallible call that validated it;
4. Variant: try_new constructors return Ok only after with_full_validation."""
import re
from . import facts as factsmod, flow, api, disc
from .mirlib import Body, callee, op_local, op_place, operand_locals

IPC_FNS = ["arrow_ipc::reader::RecordBatchDecoder::create_array", "arrow_ipc::reader::RecordBatchDecoder::create_array_from_builder",
           "arrow_ipc::reader::RecordBatchDecoder::create_struct_array", "arrow_ipc::reader::RecordBatchDecoder::read_record_batch",
           "arrow_ipc::reader::RecordBatchDecoder::create_primitive_array", "arrow_ipc::reader::RecordBatchDecoder::create_list_array",
           "arrow_ipc::reader::RecordBatchDecoder::create_list_view_array", "arrow_ipc::reader::RecordBatchDecoder::create_dictionary_array"]
UNCHECKED = re.compile(r"(new_unchecked|new_unchecked_with_length|build_unchecked|from_utf8_unchecked|to_string_view_unchecked|::skip_validation)$")
FLAG_GET = re.compile(r"UnsafeFlag::get$")

DECODER_CRATES = ["arrow_ipc", "arrow_json", "arrow_avro", "arrow_csv", "parquet", "parquet_variant", "parquet_variant_compute", "parquet_variant_json", "arrow_flight"]
DECODER_SCOPE = re.compile(r"^<?(arrow_ipc::reader|arrow_json::reader|arrow_avro::reader|arrow_avro::codec|arrow_csv::reader|parquet::arrow::array_reader|parquet::arrow::buffer|"
                           r"parquet::arrow::record_reader|parquet::arrow::arrow_reader|parquet::column::reader|parquet::encodings::decoding|parquet::encodings::rle|parquet::file::|"
                           r"parquet::parquet_thrift|parquet_variant::|parquet_variant_compute::|parquet_variant_json::|arrow_flight::decode|arrow_flight::utils)")
# (root function, constructor) -> the validation that makes it sound
INVENTORY = {
    ("arrow_ipc::reader::RecordBatchDecoder::create_array", "UnionArray::new_unchecked"): "behind UnsafeFlag (rule C08.ipc-unchecked-gated)",
    ("arrow_ipc::reader::RecordBatchDecoder::create_array_from_builder", "ArrayDataBuilder::skip_validation"): "parameterised by UnsafeFlag::get()",
    ("arrow_ipc::reader::RecordBatchDecoder::create_struct_array", "NullBuffer::new_unchecked"): "behind UnsafeFlag",
    ("arrow_ipc::reader::RecordBatchDecoder::create_struct_array", "StructArray::new_unchecked"): "behind UnsafeFlag",
    ("arrow_ipc::reader::RecordBatchDecoder::read_record_batch", "RecordBatch::new_unchecked"): "behind UnsafeFlag",
    ("<arrow_json::reader::list_array::ListLikeArrayDecoder<O, IS_VIEW> as arrow_json::reader::ArrayDecoder>::decode", "OffsetBuffer::new_unchecked"): "offsets are accumulated lengths pushed in order by the decoder itself",
    ("<arrow_json::reader::map_array::MapArrayDecoder as arrow_json::reader::ArrayDecoder>::decode", "OffsetBuffer::new_unchecked"): "offsets are accumulated lengths pushed in order by the decoder itself",
    ("<arrow_json::reader::run_end_array::RunEndEncodedArrayDecoder<R> as arrow_json::reader::ArrayDecoder>::decode", "RunArray::new_unchecked"): "run ends are produced by the decoder, each converted with a checked from_usize",
    ("<arrow_json::reader::run_end_array::RunEndEncodedArrayDecoder<R> as arrow_json::reader::ArrayDecoder>::decode", "RunEndBuffer::new_unchecked"): "run ends are produced by the decoder, each converted with a checked from_usize",
    ("<arrow_json::reader::struct_array::StructArrayDecoder as arrow_json::reader::ArrayDecoder>::decode", "StructArray::new_unchecked_with_length"): "children decoded by this decoder for exactly `row_count` rows",
    ("<parquet::arrow::array_reader::fixed_len_byte_array::FixedLenByteArrayReader as parquet::arrow::array_reader::ArrayReader>::consume_batch", "ArrayDataBuilder::build_unchecked"): "fixed width buffer sized by the record reader",
    ("<parquet::arrow::array_reader::fixed_size_list_array::FixedSizeListArrayReader as parquet::arrow::array_reader::ArrayReader>::consume_batch", "ArrayDataBuilder::build_unchecked"): "child length checked against list length * size before building",
    ("<parquet::arrow::array_reader::list_array::ListArrayReader<OffsetSize> as parquet::arrow::array_reader::ArrayReader>::consume_batch", "ArrayDataBuilder::build_unchecked"): "offsets derived from rep/def levels by this reader",
    ("<parquet::arrow::array_reader::map_array::MapArrayReader as parquet::arrow::array_reader::ArrayReader>::consume_batch", "ArrayDataBuilder::build_unchecked"): "re-types the list produced by ListArrayReader",
    ("<parquet::arrow::array_reader::struct_array::StructArrayReader as parquet::arrow::array_reader::ArrayReader>::consume_batch", "StructArray::new_unchecked_with_length"): "children lengths compared before building",
    ("parquet::arrow::buffer::dictionary_buffer::DictionaryBuffer::<K, V>::into_array", "ArrayDataBuilder::build_unchecked"): "keys validated against the dictionary length (fold over keys) before building",
    ("parquet::arrow::buffer::dictionary_buffer::pack_values_from_offsets_impl", "ArrayDataBuilder::build_unchecked"): "offsets/values come from OffsetBuffer, validated on push",
    ("parquet::arrow::buffer::offset_buffer::OffsetBuffer::<I>::into_array", "ArrayDataBuilder::build_unchecked"): "offsets pushed with try_push (monotonic, utf8 checked by check_valid_utf8)",
    ("parquet::arrow::buffer::view_buffer::ViewBuffer::into_array", "GenericByteViewArray::new_unchecked"): "views built by the decoder; utf8 validated when the values were appended",
    ("parquet::file::metadata::thrift::read_row_group", "RowGroupMetaDataBuilder::build_unchecked"): "metadata struct, no memory-safety invariant",
    ("parquet_variant_compute::variant_array_builder::binary_view_array_from_buffers", "GenericByteViewArray::new_unchecked"): "views built by the builder over its own buffers",
    ("arrow_ipc::reader::FileDecoder::read_record_batch", "RecordBatchDecoder::with_skip_validation"): "passes the decoder's own UnsafeFlag on",
    ("arrow_ipc::reader::StreamReader::<R>::next_ipc_message", "RecordBatchDecoder::with_skip_validation"): "passes the reader's own UnsafeFlag on",
    ("arrow_ipc::reader::get_dictionary_values", "RecordBatchDecoder::with_skip_validation"): "passes the caller's UnsafeFlag on",
    ("arrow_ipc::reader::FileReader::<R>::with_skip_validation", "FileDecoder::with_skip_validation"): "unsafe fn forwarding to unsafe fn",
    ("arrow_ipc::reader::FileReaderBuilder::build", "FileDecoder::with_skip_validation"): "unsafe builder option forwarded",
    ("arrow_flight::decode::FlightDataDecoder::extract_message", "RecordBatchDecoder::with_skip_validation"): "passes the decoder's own UnsafeFlag on",
}

# extra obligations of audited sites: (root function) -> (callee that must be called inside a loop, callees that must not be called)
SITE_OBLIGATIONS = {
    "<arrow_json::reader::run_end_array::RunEndEncodedArrayDecoder<R> as arrow_json::reader::ArrayDecoder>::decode":
        (re.compile(r"ArrowNativeType::from_usize$"), re.compile(r"ArrowNativeType::(usize_as|as_usize)$|::wrapping_"),
         "every run end is converted with the checked from_usize inside the loop; a wrapping conversion would feed RunEndBuffer::new_unchecked non-monotonic run ends"),
}

WIRE_CALLS = re.compile(r"(^|::)(read_list_begin|read_vlq|read_zig_zag|read_i16|read_i32|read_i64|read_footer_length|read_varint|read_set_begin|read_map_begin)$")
WIRE_FIELDS = {"uncompressed_page_size", "compressed_page_size", "bodyLength"}
SINK = re.compile(r"(Vec::<T>::with_capacity|vec::from_elem|Vec::<T, A>::reserve|Vec::<T, A>::resize|Vec::<T, A>::reserve_exact|"
                  r"MutableBuffer::(new|with_capacity|from_len_zeroed|reserve|resize)|String::with_capacity|BytesMut::with_capacity)$")
SANITIZE = re.compile(r"(^|::)(min|clamp|vec_with_bounded_capacity|saturating_sub)$")
CONVERT = re.compile(r"(^|::)(try_from|try_into|from|into|branch|from_residual|map_err|ok_or_else|unwrap|expect)$")


def size_operand(t):
    n = callee(t) or ""
    aty = t.get("aty", [])
    if "from_elem" in n:
        return t["args"][1] if len(t["args"]) > 1 else None
    idx = [i for i, ty in enumerate(aty) if ty == "usize"]
    if not idx:
        return None
    return t["args"][idx[0] if "resize" in n else idx[-1]]


def run_ipc_gating(ck, F):
    ck.rule("C08.ipc-unchecked-gated", "in the IPC array decoder every unchecked construction is control dependent on UnsafeFlag::get() or takes its "
            "skip-validation argument from it", floor=5)

    def flag_sw(body, sb):
        calls, _ = flow.switch_discr_sources(body, sb)
        return any(FLAG_GET.search(flow.norm(callee(c) or "")) for c in calls)
    for fid in IPC_FNS:
        fn = F.resolve(fid)
        if fn is None:
            continue
        b = Body(fn)
        for bb, t in b.calls():
            n = flow.norm(callee(t) or "")
            if not UNCHECKED.search(n) or not (t.get("f") or {}).get("unsafe"):
                continue
            key = "%s -> %s" % (flow.norm(fn["id"]), "::".join(n.split("::")[-2:]))
            gated = flow.control_dependent_on(b, bb, flag_sw)
            param = False
            for a in t["args"]:
                l = op_local(a)
                if l is not None:
                    _, calls = b.back_slice(l)
                    if any(FLAG_GET.search(flow.norm(callee(c) or "")) for _, c in calls):
                        param = True
            if gated or param:
                ck.ok("C08.ipc-unchecked-gated", key, "control dependent on UnsafeFlag::get()" if gated else "argument is UnsafeFlag::get()")
            else:
                ck.bad("C08.ipc-unchecked-gated", key, "%s calls %s without consulting the skip-validation flag: arbitrary IPC bytes would yield an unvalidated array" % (fn["id"], n), b.loc(bb))


def run_inventory(ck, F):
    ck.rule("C08.unchecked-inventory", "in the decoders of untrusted input, unsafe unchecked constructors are called only from the audited (function, constructor) "
            "pairs (each with the validation that justifies it)", floor=20)
    seen = set()
    for cn in DECODER_CRATES:
        for fn in F.crate(cn).fns:
            if "mir" not in fn:
                continue
            root = flow.norm(fn.get("parent") if fn["kind"] == "Closure" else fn["id"])
            if not DECODER_SCOPE.search(root):
                continue
            b = Body(fn)
            for bb, t in b.calls():
                n = flow.norm(callee(t) or "")
                if not UNCHECKED.search(n) or not (t.get("f") or {}).get("unsafe"):
                    continue
                if re.search(r"Pin::new_unchecked|NonNull::new_unchecked|Layout::from_size_align_unchecked|str::from_utf8_unchecked$", n) and "arrow" not in n.split("::")[0]:
                    if "from_utf8_unchecked" not in n:
                        continue
                ctor = "::".join(n.split("::")[-2:])
                key = (root, ctor)
                if key in seen:
                    continue
                seen.add(key)
                # table keys are written with generic parameters where the def path has them
                hit = None
                for (kr, kc), why in INVENTORY.items():
                    if kc == ctor and flow.norm(kr) == root:
                        hit = why
                if hit:
                    ck.ok("C08.unchecked-inventory", "%s -> %s" % key, "audited: " + hit)
                else:
                    ck.bad("C08.unchecked-inventory", "%s -> %s" % key, "%s builds a value with the unchecked constructor %s from decoded input and is not in the audited table: "
                           "show which validation makes it sound and add it, or use the checked constructor" % (fn["id"], n), b.loc(bb))


def run_site_obligations(ck, F):
    ck.rule("C08.audited-site-obligations", "the validation that justifies an audited unchecked construction is still in place at that site", floor=len(SITE_OBLIGATIONS))
    from .c04 import in_cycle
    for fid, (need_loop, forbid, why) in SITE_OBLIGATIONS.items():
        fn = F.resolve(fid)
        if fn is None:
            ck.missing_anchor(fid, "C08.audited-site-obligations")
            continue
        b = Body(fn)
        allb = set(range(b.n))
        need = [bb for bb, t in b.calls() if need_loop.search(flow.norm(callee(t) or "")) or need_loop.search(callee(t) or "")]
        looped = [bb for bb in need if in_cycle(b, bb, allb)]
        bad = [b.loc(bb) + " " + (callee(t) or "") for bb, t in b.calls() if forbid.search(flow.norm(callee(t) or "")) or forbid.search(callee(t) or "")]
        if looped and not bad:
            ck.ok("C08.audited-site-obligations", flow.norm(fid), why)
        else:
            ck.bad("C08.audited-site-obligations", flow.norm(fid), "%s: %s (checked conversions in the loop: %d, forbidden conversions: %s)" % (fid, why, len(looped), bad), "%s:%s" % (fn["file"], fn["line"]))


def run_alloc(ck, F):
    ck.rule("C08.alloc-bound", "a size decoded from the wire never reaches an allocation without a min(..)/bounded helper, or a preceding fallible call "
            "that validated it", floor=5)
    for cn in ["parquet", "arrow_ipc", "arrow_avro", "arrow_flight", "parquet_variant"]:
        for fn in F.crate(cn).fns:
            if "mir" not in fn:
                continue
            root = flow.norm(fn.get("parent") if fn["kind"] == "Closure" else fn["id"])
            if not DECODER_SCOPE.search(root):
                continue
            b = Body(fn)
            for bb, t in b.calls():
                n = callee(t) or ""
                bounded_helper = n.endswith("::vec_with_bounded_capacity")
                if not (SINK.search(n) or bounded_helper):
                    continue
                a = size_operand(t) if not bounded_helper else (t["args"][0] if t["args"] else None)
                l = op_local(a) if a else None
                if l is None:
                    continue
                seen, calls = b.back_slice(l)
                src = [flow.norm(callee(c) or "").split("::")[-1] for _, c in calls if WIRE_CALLS.search(flow.norm(callee(c) or ""))]
                # wire struct fields read into the slice
                for x in seen:
                    for d in b.defs().get(x, []):
                        if d[0] == "s":
                            from .mirlib import rvalue_operands
                            for op in rvalue_operands(d[3]):
                                p = op_place(op)
                                if p is not None:
                                    for e in p[1]:
                                        if isinstance(e, list) and e[0] == "f" and e[2] in WIRE_FIELDS:
                                            src.append("field " + e[2])
                if not src:
                    continue
                key = "%s -> %s" % (root, n.split("::")[-1])
                if bounded_helper or any(SANITIZE.search(flow.norm(callee(c) or "")) for _, c in calls):
                    ck.ok("C08.alloc-bound", key, "size from %s bounded by min()/bounded helper" % sorted(set(src)))
                    continue
                # validated by a preceding fallible call taking the size
                tainted = b.taint(flow.origin_locals(b, l) | {l})
                validators = []
                for vb, vt in b.calls():
                    if vb == bb or vt is t:
                        continue
                    vn = flow.norm(callee(vt) or "")
                    if CONVERT.search(vn) or WIRE_CALLS.search(vn):
                        continue
                    if disc.result_err_type(vt.get("rt", "")) is None:
                        continue
                    if any(x in tainted for a_ in vt["args"] for x in operand_locals(a_)) and b.must_pass([vb], bb):
                        fate, _ = disc.classify(b, vt["dest"][0]) if not vt["dest"][1] else ("propagated", "")
                        if fate != "discarded":
                            validators.append(vn.split("::")[-1])
                if validators:
                    ck.ok("C08.alloc-bound", key, "size from %s validated by preceding fallible %s" % (sorted(set(src)), validators))
                else:
                    ck.bad("C08.alloc-bound", key, "%s allocates %s with a size taken from the wire (%s) without bounding it: a few crafted bytes request an allocation "
                           "unrelated to the size of the input" % (fn["id"], n.split("::")[-1], sorted(set(src))), b.loc(bb))


VARIANT = [
    ("variant-try_new_with_metadata", "parquet_variant::variant::Variant::try_new_with_metadata", re.compile(r"::with_full_validation$")),
    ("variant-try_new", "parquet_variant::variant::Variant::try_new", re.compile(r"::try_new_with_metadata$")),
    ("variant-metadata-try_new", "parquet_variant::variant::metadata::VariantMetadata::try_new", re.compile(r"::with_full_validation$")),
    ("variant-object-try_new", "parquet_variant::variant::object::VariantObject::try_new", re.compile(r"::with_full_validation$")),
    ("variant-list-try_new", "parquet_variant::variant::list::VariantList::try_new", re.compile(r"::with_full_validation$")),
]


def run_variant(ck, F):
    ck.rule("C08.variant-full-validation", "the try_new constructors of the Variant binary format return Ok only through with_full_validation", floor=len(VARIANT))
    for iid, fid, need in VARIANT:
        fn = F.resolve(fid)
        if fn is None:
            ck.missing_anchor(fid, "C08.variant-full-validation")
            continue
        b = Body(fn)
        ok, bad, through = flow.success_passes(b, need)
        if ok:
            ck.ok("C08.variant-full-validation", iid, "all Ok exits pass %s" % need.pattern)
        else:
            ck.bad("C08.variant-full-validation", iid, "%s can return Ok without %s" % (fid, need.pattern), "%s:%s" % (fn["file"], fn["line"]))


def run_csv(ck, F):
    ck.rule("C08.csv-field-boundaries", "the CSV record decoder hands out fields as unchecked sub-slices of one validated str: flush must reject unless every "
            "field offset is a char boundary (whole-buffer validation alone accepts a multi-byte character split by a delimiter)", floor=1)
    fn = F.resolve("arrow_csv::reader::records::RecordDecoder::flush")
    if fn is None:
        ck.missing_anchor("arrow_csv::reader::records::RecordDecoder::flush", "C08.csv-field-boundaries")
        return
    c = F.crate("arrow_csv")
    fns = [fn] + [cl for cl in c.closures_of.get(fn["id"], []) if "mir" in cl]
    has_boundary = any((callee(t) or "").endswith("::is_char_boundary") for f in fns for _, t in Body(f).calls())
    b = Body(fn)
    whole = [bb for bb, t in b.calls() if re.search(r"str::from_utf8$|converts::from_utf8$", callee(t) or "")]
    if has_boundary and whole:
        ck.ok("C08.csv-field-boundaries", "RecordDecoder::flush", "from_utf8 on the buffer and is_char_boundary on the field offsets")
    else:
        ck.bad("C08.csv-field-boundaries", "RecordDecoder::flush", "flush no longer checks %s: fields sliced unchecked out of the buffer may be invalid UTF-8"
               % ("field offsets with is_char_boundary" if whole else "the buffer with from_utf8"), "%s:%s" % (fn["file"], fn["line"]))


def run_utf8_flag(ck, F):
    ck.rule("C08.utf8-validation-keyed-on-target", "in the Parquet Arrow readers the decision to validate UTF-8 is not taken from the file's own annotation alone: a column "
            "value decoder whose `validate_utf8` derives only from ColumnDescriptor::converted_type() builds string arrays unchecked whenever the Arrow type hint "
            "(supplied schema or the file's embedded ARROW:schema) says Utf8 for a BINARY column without the UTF8 annotation", floor=3)
    from .mirlib import op_local as _ol
    for fn in F.crate("parquet").fns:
        if "mir" not in fn or not fn["id"].lstrip("<").startswith("parquet::arrow::array_reader"):
            continue
        b = Body(fn)
        for bl in range(b.n):
            for st in b.stmts(bl):
                if not (st[0] == "a" and st[2][0] == "agg" and st[2][1][0] == "adt"):
                    continue
                try:
                    adt = F.adt(st[2][1][1])
                except factsmod.MissingAnchor:
                    continue
                names = [f["name"] for f in adt["variants"][st[2][1][2]]["fields"]]
                if "validate_utf8" not in names:
                    continue
                op = st[2][2][names.index("validate_utf8")]
                l = _ol(op)
                if l is None:
                    continue
                seen, calls = b.back_slice(l)
                srcs = [flow.norm(callee(c) or "").split("::")[-1] for _, c in calls]
                if "converted_type" not in srcs and "logical_type" not in srcs:
                    continue        # flag passed in by the caller: judged where it is computed
                params = [b.locals[x] for x in seen if 1 <= x <= b.argc]
                sees_arrow_type = any("arrow_schema::DataType" in t or "arrow_schema::datatype::DataType" in t for t in params)
                key = flow.norm(fn["id"])
                if sees_arrow_type:
                    ck.ok("C08.utf8-validation-keyed-on-target", key, "the flag also depends on the Arrow type being produced")
                else:
                    ck.bad("C08.utf8-validation-keyed-on-target", key, "%s computes validate_utf8 from the column's converted type only (%s); the Arrow type requested for the column is not "
                           "consulted, so a BINARY column read as a string type is built without UTF-8 validation" % (fn["id"], srcs), "%s:%s" % (fn["file"], st[3]))


DECODER_FILES = ["arrow-ipc/src/reader.rs", "arrow-ipc/src/reader/stream.rs", "arrow-ipc/src/convert.rs", "arrow-ipc/src/compression.rs", "arrow-flight/src/decode.rs",
                 "arrow-flight/src/utils.rs", "parquet/src/parquet_thrift.rs", "parquet/src/file/metadata/*.rs", "parquet/src/file/metadata/thrift/*.rs",
                 "parquet/src/file/serialized_reader.rs", "parquet/src/column/reader.rs", "parquet/src/column/reader/decoder.rs", "parquet/src/encodings/decoding.rs",
                 "parquet/src/encodings/rle.rs", "parquet/src/util/bit_util.rs", "parquet/src/compression.rs", "parquet/src/arrow/array_reader/*.rs",
                 "parquet/src/arrow/buffer/*.rs", "parquet/src/arrow/schema/*.rs", "arrow-avro/src/reader/*.rs", "arrow-avro/src/codec.rs", "arrow-csv/src/reader/*.rs",
                 "arrow-json/src/reader/*.rs", "parquet-variant/src/decoder.rs", "parquet-variant/src/variant/*.rs", "parquet-variant/src/variant.rs", "arrow-data/src/data.rs"]
CENSUS_CRATES = ["arrow_ipc", "arrow_flight", "parquet", "arrow_avro", "arrow_csv", "arrow_json", "parquet_variant", "arrow_data"]


def rejection_census(F):
    """{crate: {fn id: number of rejecting decisions}} over the decoder files the property is anchored in"""
    import fnmatch
    out = {}
    for cn in CENSUS_CRATES:
        per = {}
        for fn in F.crate(cn).fns:
            if "mir" not in fn or not any(fnmatch.fnmatch(fn["file"], pat) for pat in DECODER_FILES):
                continue
            n = flow.rejection_points(Body(fn))
            if n:
                per[flow.norm(fn["id"])] = n
        out[cn] = per
    return out


def run_census(ck, F):
    import json, os
    tab = json.load(open(os.path.join(os.path.dirname(__file__), "tables", "c08_rejections.json")))
    ck.rule("C08.rejections-kept", "every decision of the reference tree's decoders that rejects input (a branch with one side leading only to Err / panic and another "
            "still able to succeed, `?` included) is still there: per function, and -- so that moving or renaming code is not reported -- only if the crate's total "
            "dropped as well", floor=sum(len(v) for v in tab.values()))
    now = rejection_census(F)
    for cn, ref in sorted(tab.items()):
        cur = now.get(cn, {})
        tot_ref, tot_cur = sum(ref.values()), sum(cur.values())
        ck.count("rejections_%s" % cn, tot_cur)
        dropped = [(fid, n, cur.get(fid, 0)) for fid, n in sorted(ref.items()) if cur.get(fid, 0) < n]
        for fid, n in sorted(ref.items()):
            if cur.get(fid, 0) >= n or tot_cur >= tot_ref:
                ck.ok("C08.rejections-kept", fid, "%d rejecting decision(s) (reference %d)" % (cur.get(fid, 0), n))
            else:
                fn = F.resolve(fid)
                ck.bad("C08.rejections-kept", fid, "%s has %d rejecting decision(s), the reference tree has %d, and the total over %s fell from %d to %d: an input check was "
                       "removed from this decoder" % (fid, cur.get(fid, 0), n, cn, tot_ref, tot_cur), ("%s:%s" % (fn["file"], fn["line"])) if fn else None)


def run(ck, tier):
    F = factsmod.Facts("ws")
    from . import influence as _infl
    _infl.run(ck, F, 'C08')
    from . import mustpass as _mp
    _mp.run(ck, F, 'C08')
    from . import accum as _acc2
    _acc2.run2(ck, F, 'C08')
    from . import relations as _rel
    _rel.run(ck, F, 'C08')
    from . import guards as _grd
    _grd.run(ck, F, 'C08')
    from . import c08x
    c08x.run(ck, F)
    from . import c08y
    c08y.run(ck, F)
    c08y.run_block_fields(ck, F)
    c08y.run_len_minus(ck, F)
    c08y.run_variant_boundaries(ck, F)
    c08y.run_variant_children(ck, F)
    from . import accum as _acc
    _acc.run(ck, F, 'C08')
    run_census(ck, F)
    run_utf8_flag(ck, F)
    run_csv(ck, F)
    run_ipc_gating(ck, F)
    run_inventory(ck, F)
    run_site_obligations(ck, F)
    run_alloc(ck, F)
    run_variant(ck, F)
    from . import c09, core
    c09.run_inputs(core.Renamed(ck, "C09.", "C08."), F)      # the full validation every safe IPC / Flight decode relies on
    api.must_be_unsafe(ck, F, "C08.skip-validation-is-unsafe", ["arrow_ipc", "arrow_flight", "arrow_data"], re.compile(r"skip_validation|^set$"),
                       [(r"with_skip_validation$", "takes an UnsafeFlag, which can only be set inside `unsafe`", lambda fn: any("UnsafeFlag" in t for t in fn.get("inputs", []))),
                        (r"::set$", "not UnsafeFlag::set", lambda fn: "UnsafeFlag" not in fn["id"])], floor=5)
    ck.note("Decided: gating of unchecked construction in the IPC decoder, audited inventory of unchecked constructors in all decoders, wire-size-to-allocation "
            "bounds, Variant full validation, unsafe-ness of the skip-validation switches. Not decided: absence of index panics / unbounded loops in general.")
    return F.info
