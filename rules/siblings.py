"""LAYOUT SIBLINGS — data types with the same physical layout are routed alike by layout-level dispatches.

Utf8/Binary, LargeUtf8/LargeBinary, Utf8View/BinaryView, List/LargeList (modulo the offset type), ListView/LargeListView differ in what their
bytes mean, not in how buffers, offsets and children are laid out.  Code that only moves or compares layouts (the IPC writer and reader, the
projection skipper, MutableArrayData, array equality) must treat the two members of a pair the same way: for each such dispatch function the
set of callees reached when the dispatch is evaluated for one member equals the set reached for the other (generic arguments removed).  A
`matches!(t, LargeBinary | LargeUtf8)` that loses one alternative sends that type down the generic arm, which ignores the slice offset."""
import json, os, re
from . import dtm, flow
from .mirlib import Body, callee

PAIRS = [("Utf8", "Binary"), ("LargeUtf8", "LargeBinary"), ("Utf8View", "BinaryView"), ("List", "LargeList"), ("ListView", "LargeListView")]
# (function, how the dispatched DataType is reached)
DISPATCHES = {
    "C04": [("arrow_ipc::writer::write_array_data", "call:ArrayData::data_type"),
            ("arrow_ipc::reader::RecordBatchDecoder::<'a>::create_array", "call:Field::data_type"),
            ("arrow_ipc::reader::RecordBatchDecoder::<'a>::skip_field", "call:Field::data_type"),
            ("arrow_ipc::writer::reencode_offsets", "call:ArrayData::data_type"),
            ("arrow_ipc::writer::get_byte_array_buffers", "call:ArrayData::data_type")],
    "C03": [("arrow_data::transform::build_extend", "call:ArrayData::data_type"),
            ("arrow_data::transform::build_extend_nulls", 1),
            ("arrow_select::filter::filter_array", "call:Array::data_type"),
            ("arrow_select::take::take_impl", "call:Array::data_type"),
            ("arrow_select::concat::concat", "call:Array::data_type"),
            ("arrow_select::interleave::interleave", "call:Array::data_type")],
    "C02": [("arrow_data::equal::equal_values", "call:ArrayData::data_type")],
}
TABLE = os.path.join(os.path.dirname(__file__), "tables", "layout_siblings.json")


def _strip(n):
    n = flow.norm(n or "")
    for _ in range(4):
        n = re.sub(r"<[^<>]*>", "", n)
    return re.sub(r"::+", "::", n).strip(":")


def callee_set(F, b, key, d):
    r = dtm.reach_under(b, {key: d})
    out = set()
    for bb, t in b.calls():
        if bb in r:
            n = _strip(callee(t) or "")
            if n and not re.search(r"^(core|std|alloc)::(fmt|panicking|ops|convert|clone|borrow|hint|mem|ptr|option|result)", n):
                out.add(n)
    return out, len(r)


def evaluate(F, pid):
    variants = dict(dtm.enum_variants(F, "arrow_schema::datatype::DataType"))
    rows = []
    for fid, key in DISPATCHES.get(pid, []):
        fn = F.resolve(fid)
        if fn is None or "mir" not in fn:
            rows.append((fid, None, None, None))
            continue
        b = Body(fn)
        for a, c in PAIRS:
            sa, ra = callee_set(F, b, key, variants[a])
            sc, rc = callee_set(F, b, key, variants[c])
            rows.append((fid, "%s~%s" % (a, c), sorted(sa ^ sc), (ra < b.n or rc < b.n)))
    return rows


def build_table(F):
    tab = {}
    for pid in DISPATCHES:
        for fid, pair, diff, resolved in evaluate(F, pid):
            if pair and resolved and not diff:
                tab.setdefault(pid, []).append([fid, pair])
    return tab


def check(ck, F, pid):
    rule = "%s.layout-sibling-agreement" % pid
    tab = json.load(open(TABLE)).get(pid, [])
    ck.rule(rule, "layout-level dispatches reach the same callees for both members of a same-layout type pair (Utf8/Binary, LargeUtf8/LargeBinary, Utf8View/BinaryView, "
            "List/LargeList, ListView/LargeListView), as they do on the reference tree", floor=len(tab))
    now = {(fid, pair): (diff, resolved) for fid, pair, diff, resolved in evaluate(F, pid) if pair}
    for fid, pair in tab:
        key = "%s[%s]" % (fid, pair)
        if (fid, pair) not in now:
            ck.missing_anchor(fid, rule)
            continue
        diff, resolved = now[(fid, pair)]
        if not resolved:
            ck.bad(rule, key, "the data-type dispatch of %s is no longer resolved (anchor moved)" % fid, None)
        elif diff:
            a, c = pair.split("~")
            ck.bad(rule, key, "%s routes %s and %s differently (callees reached for only one of them: %s): the two types have the same physical layout, so one of them is "
                   "now handled by an arm written for another layout (e.g. the generic arm that ignores the slice offset)" % (fid, a, c, diff[:6]), None)
        else:
            ck.ok(rule, key, "same callees for both")
