"""LAYOUT SIBLINGS — data types with the same physical layout are routed alike by layout-level dispatches.

Utf8/Binary, LargeUtf8/LargeBinary, Utf8View/BinaryView, List/LargeList (modulo the offset type), ListView/LargeListView differ in what their
bytes mean, not in how buffers, offsets and children are laid out.  Code that only moves or compares layouts (the IPC writer and reader, the
projection skipper, MutableArrayData, array equality) must treat the two members of a pair the same way: for each such dispatch function the
set of callees reached when the dispatch is evaluated for one member equals the set reached for the other (generic arguments removed).  A
`matches!(t, LargeBinary | LargeUtf8)` that loses one alternative sends that type down the generic arm, which ignores the slice offset."""
import json, os, re
from . import dtm, flow
from .mirlib import Body, callee

PAIRS = [("Utf8", "Binary"), ("LargeUtf8", "LargeBinary"), ("Utf8View", "BinaryView"), ("List", "LargeList"), ("ListView", "LargeListView")]
# (function, how the dispatched DataType is reached)
DISPATCHES = {
    "C04": [("arrow_ipc::writer::write_array_data", "call:ArrayData::data_type"),
            ("arrow_ipc::reader::RecordBatchDecoder::<'a>::create_array", "call:Field::data_type"),
            ("arrow_ipc::reader::RecordBatchDecoder::<'a>::skip_field", "call:Field::data_type"),
            ("arrow_ipc::writer::reencode_offsets", "call:ArrayData::data_type"),
            ("arrow_ipc::writer::get_byte_array_buffers", "call:ArrayData::data_type")],
    "C03": [("arrow_data::transform::build_extend", "call:ArrayData::data_type"),
            ("arrow_data::transform::build_extend_nulls", 1),
            ("arrow_select::filter::filter_array", "call:Array::data_type"),
            ("arrow_select::take::take_impl", "call:Array::data_type"),
            ("arrow_select::concat::concat", "call:Array::data_type"),
            ("arrow_select::interleave::interleave", "call:Array::data_type")],
    "C02": [("arrow_data::equal::equal_values", "call:ArrayData::data_type")],
}
TABLE = os.path.join(os.path.dirname(__file__), "tables", "layout_siblings.json")


def _strip(n):
    n = flow.norm(n or "")
    for _ in range(4):
        n = re.sub(r"<[^<>]*>", "", n)
    return re.sub(r"::+", "::", n).strip(":")


def reach_flow(b, assume, cap=60000):
    """reach_under with constant propagation of the booleans produced by `matches!(x, A | B)` on an assumed discriminant:
    states are (block, known bool locals); falls back to the plain reachability if the state space explodes"""
    from collections import deque
    from .mirlib import op_const, op_local
    start = (0, frozenset())
    seen = {start}
    dq = deque([start])
    blocks = {0}
    while dq:
        bl, env = dq.popleft()
        e = dict(env)
        for s in b.stmts(bl):
            if s[0] != "a" or s[1][1]:
                continue
            dst = s[1][0]
            val = None
            if s[2][0] == "use":
                k = op_const(s[2][1])
                if k is not None:
                    txt = str(k[0] if isinstance(k, (list, tuple)) else k)
                    if txt in ("true", "false"):
                        val = txt == "true"
                else:
                    l = op_local(s[2][1])
                    if l in e:
                        val = e[l]
            if val is None:
                e.pop(dst, None)
            else:
                e[dst] = val
        t = b.term(bl)
        succ = b.succ(bl)
        if t["k"] == "call":
            e.pop(t["dest"][0], None)
        if t["k"] == "switch":
            dr = dtm.discr_root(b, bl)
            want = dtm._assumed(assume, dr[0]) if dr else None
            if want is not None:
                vals = dict(t["ts"])
                succ = [vals[want]] if want in vals else [t["else"]]
            else:
                l = op_local(t["d"])
                if l in e and t.get("dty") == "bool":
                    vals = dict(t["ts"])
                    w = "1" if e[l] else "0"
                    succ = [vals[w]] if w in vals else [t["else"]]
        fe = frozenset(e.items())
        for x in succ:
            st = (x, fe)
            if st not in seen:
                seen.add(st)
                blocks.add(x)
                dq.append(st)
                if len(seen) > cap:
                    return dtm.reach_under(b, assume)
    return blocks


def callee_set(F, b, key, d):
    r = reach_flow(b, {key: d})
    out = set()
    for bb, t in b.calls():
        if bb in r:
            n = _strip(callee(t) or "")
            if n and not re.search(r"^(core|std|alloc)::(fmt|panicking|ops|convert|clone|borrow|hint|mem|ptr|option|result)", n):
                out.add(n)
    return out, len(r)


def evaluate(F, pid):
    variants = dict(dtm.enum_variants(F, "arrow_schema::datatype::DataType"))
    rows = []
    for fid, key in DISPATCHES.get(pid, []):
        fn = F.resolve(fid)
        if fn is None or "mir" not in fn:
            rows.append((fid, None, None, None))
            continue
        b = Body(fn)
        for a, c in PAIRS:
            sa, ra = callee_set(F, b, key, variants[a])
            sc, rc = callee_set(F, b, key, variants[c])
            rows.append((fid, "%s~%s" % (a, c), sorted(sa ^ sc), (ra < b.n or rc < b.n)))
    return rows


def build_table(F):
    tab = {}
    for pid in DISPATCHES:
        for fid, pair, diff, resolved in evaluate(F, pid):
            if pair and resolved and not diff:
                tab.setdefault(pid, []).append([fid, pair])
    return tab


def check(ck, F, pid):
    rule = "%s.layout-sibling-agreement" % pid
    tab = json.load(open(TABLE)).get(pid, [])
    ck.rule(rule, "layout-level dispatches reach the same callees for both members of a same-layout type pair (Utf8/Binary, LargeUtf8/LargeBinary, Utf8View/BinaryView, "
            "List/LargeList, ListView/LargeListView), as they do on the reference tree", floor=len(tab))
    now = {(fid, pair): (diff, resolved) for fid, pair, diff, resolved in evaluate(F, pid) if pair}
    for fid, pair in tab:
        key = "%s[%s]" % (fid, pair)
        if (fid, pair) not in now:
            ck.missing_anchor(fid, rule)
            continue
        diff, resolved = now[(fid, pair)]
        if not resolved:
            ck.bad(rule, key, "the data-type dispatch of %s is no longer resolved (anchor moved)" % fid, None)
        elif diff:
            a, c = pair.split("~")
            ck.bad(rule, key, "%s routes %s and %s differently (callees reached for only one of them: %s): the two types have the same physical layout, so one of them is "
                   "now handled by an arm written for another layout (e.g. the generic arm that ignores the slice offset)" % (fid, a, c, diff[:6]), None)
        else:
            ck.ok(rule, key, "same callees for both")
