"""CFG / dataflow utilities over the MIR facts written by the arrowfacts driver."""
from collections import defaultdict, deque


def op_place(op):
    """operand -> place ([local, proj]) or None for constants."""
    if op and op[0] in ("c", "m"):
        return op[1]
    return None


def op_local(op):
    p = op_place(op)
    return p[0] if p is not None else None


def op_const(op):
    if op and op[0] == "k":
        return op[1]
    return None


def op_fn(op):
    if op and op[0] == "fn":
        return op[1]
    return None


def callee(term):
    """Most specific name of a call's callee (resolved instance if known)."""
    f = term.get("f")
    if not f:
        return None
    return f.get("res") or f["path"]


def callee_names(term):
    f = term.get("f")
    if not f:
        return ()
    if "res" in f:
        return (f["res"], f["path"])
    return (f["path"],)


def rvalue_operands(rv):
    k = rv[0]
    if k == "use":
        return [rv[1]]
    if k == "repeat":
        return [rv[1]]
    if k in ("ref", "raw"):
        return [["c", rv[2]]]
    if k == "cast":
        return [rv[2]]
    if k == "bin":
        return [rv[2], rv[3]]
    if k == "un":
        return [rv[2]]
    if k == "discr":
        return [["c", rv[1]]]
    if k == "agg":
        return list(rv[2])
    return []


def place_locals(p):
    """locals mentioned by a place (base + index locals)."""
    out = [p[0]]
    for e in p[1]:
        if isinstance(e, list) and e[0] == "i":
            out.append(e[1])
    return out


def operand_locals(op):
    p = op_place(op)
    return place_locals(p) if p is not None else []


def rvalue_locals(rv):
    out = []
    for op in rvalue_operands(rv):
        out.extend(operand_locals(op))
    return out


class Body:
    def __init__(self, fn):
        self.fn = fn
        self.id = fn["id"]
        m = fn["mir"]
        self.argc = m["argc"]
        self.locals = m["locals"]
        self.blocks = m["blocks"]
        self.dbg = m["dbg"]
        self.n = len(self.blocks)
        self._dom = {}
        self._succ = {}
        self._defs = None
        self._uses = None

    # ---------------------------------------------------------------- CFG
    def term(self, b):
        return self.blocks[b]["t"]

    def stmts(self, b):
        return self.blocks[b]["s"]

    def succ(self, b, unwind=False):
        key = (b, unwind)
        if key in self._succ:
            return self._succ[key]
        t = self.blocks[b]["t"]
        k = t["k"]
        out = []
        if k == "switch":
            out = [x[1] for x in t["ts"]] + [t["else"]]
        elif k in ("goto", "drop", "call", "assert", "yield"):
            if "t" in t:
                out.append(t["t"])
        if unwind and "u" in t:
            out.append(t["u"])
        if k == "yield" and unwind and "dropbb" in t:
            out.append(t["dropbb"])
        # dedupe, keep order
        seen = []
        for x in out:
            if x not in seen:
                seen.append(x)
        self._succ[key] = seen
        return seen

    def preds(self, unwind=False):
        p = defaultdict(list)
        for b in range(self.n):
            for s in self.succ(b, unwind):
                p[s].append(b)
        return p

    def reachable(self, start=0, unwind=False, removed_blocks=(), removed_edges=()):
        removed_blocks = set(removed_blocks)
        removed_edges = set(removed_edges)
        if start in removed_blocks:
            return set()
        seen = {start}
        dq = deque([start])
        while dq:
            b = dq.popleft()
            for s in self.succ(b, unwind):
                if s in seen or s in removed_blocks or (b, s) in removed_edges:
                    continue
                seen.add(s)
                dq.append(s)
        return seen

    def can_reach(self, src, targets, unwind=False, removed_blocks=(), removed_edges=()):
        r = self.reachable(src, unwind, removed_blocks, removed_edges)
        return bool(r & set(targets))

    def dominators(self, unwind=False):
        """dom[b] = set of blocks dominating b (reachable blocks only)."""
        if unwind in self._dom:
            return self._dom[unwind]
        reach = self.reachable(0, unwind)
        preds = self.preds(unwind)
        order = self._rpo(unwind)
        full = set(reach)
        dom = {b: set(full) for b in reach}
        dom[0] = {0}
        changed = True
        while changed:
            changed = False
            for b in order:
                if b == 0:
                    continue
                ps = [p for p in preds[b] if p in reach]
                if not ps:
                    continue
                new = set.intersection(*[dom[p] for p in ps]) | {b}
                if new != dom[b]:
                    dom[b] = new
                    changed = True
        self._dom[unwind] = dom
        return dom

    def _rpo(self, unwind=False):
        seen = set()
        out = []
        stack = [(0, iter(self.succ(0, unwind)))]
        seen.add(0)
        while stack:
            b, it = stack[-1]
            adv = False
            for s in it:
                if s not in seen:
                    seen.add(s)
                    stack.append((s, iter(self.succ(s, unwind))))
                    adv = True
                    break
            if not adv:
                out.append(b)
                stack.pop()
        out.reverse()
        return out

    def edge_dominates(self, edge, b, unwind=False):
        """every path entry -> b uses CFG edge `edge`."""
        if b not in self.reachable(0, unwind):
            return True
        return b not in self.reachable(0, unwind, removed_edges=[edge])

    def must_pass(self, through_blocks, to_block, unwind=False):
        """every path entry -> to_block passes one of `through_blocks` (to_block itself counts)."""
        if to_block in through_blocks:
            return True
        return to_block not in self.reachable(0, unwind, removed_blocks=through_blocks)

    # ---------------------------------------------------------------- calls
    def calls(self):
        for b in range(self.n):
            t = self.blocks[b]["t"]
            if t["k"] in ("call", "tailcall"):
                yield b, t

    def calls_to(self, pred):
        for b, t in self.calls():
            names = callee_names(t)
            if any(pred(n) for n in names):
                yield b, t

    def return_blocks(self):
        return [b for b in range(self.n) if self.blocks[b]["t"]["k"] == "return"]

    # ---------------------------------------------------------------- def/use
    def defs(self):
        """local -> list of ('s', b, i, rvalue) / ('call', b, term)"""
        if self._defs is not None:
            return self._defs
        d = defaultdict(list)
        for b in range(self.n):
            for i, s in enumerate(self.blocks[b]["s"]):
                if s[0] == "a":
                    d[s[1][0]].append(("s", b, i, s[2], s[1]))
                elif s[0] == "setdiscr":
                    d[s[1][0]].append(("setdiscr", b, i, None, s[1]))
            t = self.blocks[b]["t"]
            if t["k"] == "call":
                d[t["dest"][0]].append(("call", b, None, t, t["dest"]))
        self._defs = d
        return d

    def uses(self, local):
        """all mentions of `local` as an operand / place base: list of dicts."""
        if self._uses is None:
            self._build_uses()
        return self._uses.get(local, [])

    def _build_uses(self):
        idx = defaultdict(list)
        for b in range(self.n):
            for i, s in enumerate(self.blocks[b]["s"]):
                if s[0] == "a":
                    for l in set(rvalue_locals(s[2])):
                        idx[l].append({"b": b, "i": i, "kind": "stmt", "s": s})
                    # assignment through the local (e.g. (*l).f = ..) counts as use of l
                    if s[1][1]:
                        idx[s[1][0]].append({"b": b, "i": i, "kind": "store_through", "s": s})
            t = self.blocks[b]["t"]
            k = t["k"]
            if k in ("call", "tailcall"):
                for ai, a in enumerate(t["args"]):
                    for l in set(operand_locals(a)):
                        idx[l].append({"b": b, "kind": "arg", "t": t, "argi": ai})
                if "fi" in t:
                    for l in set(operand_locals(t["fi"])):
                        idx[l].append({"b": b, "kind": "callee", "t": t})
            elif k == "switch":
                for l in set(operand_locals(t["d"])):
                    idx[l].append({"b": b, "kind": "switch", "t": t})
            elif k == "drop":
                idx[t["p"][0]].append({"b": b, "kind": "drop", "t": t})
            elif k == "assert":
                for l in set(operand_locals(t["cond"])):
                    idx[l].append({"b": b, "kind": "assert", "t": t})
            elif k == "yield":
                for l in set(operand_locals(t["v"])):
                    idx[l].append({"b": b, "kind": "yield", "t": t})
        self._uses = idx

    def taint(self, sources, through_calls=True, mut_ref_args=False, stop_calls=None, self_only_calls=None):
        """Forward, flow-insensitive, field-insensitive taint over locals.
        `sources` is a set of locals; returns the closure.  A call result is tainted by any
        tainted argument unless the callee name satisfies `stop_calls`."""
        tainted = set(sources)
        changed = True
        while changed:
            changed = False
            for b in range(self.n):
                for s in self.blocks[b]["s"]:
                    if s[0] != "a":
                        continue
                    dst = s[1][0]
                    if dst in tainted:
                        continue
                    if any(l in tainted for l in rvalue_locals(s[2])):
                        tainted.add(dst)
                        changed = True
                t = self.blocks[b]["t"]
                if t["k"] == "call" and through_calls:
                    if stop_calls and any(stop_calls(n) for n in callee_names(t)):
                        continue
                    args = t["args"]
                    if self_only_calls and any(self_only_calls(n) for n in callee_names(t)):
                        args = args[:1]         # e.g. Result::map_err(self, f): the error-building closure's captures do not decide anything
                    hit = any(l in tainted for a in args for l in operand_locals(a))
                    if hit:
                        dst = t["dest"][0]
                        if dst not in tainted:
                            tainted.add(dst)
                            changed = True
                        if mut_ref_args:
                            for a, ty in zip(t["args"], t.get("aty", [])):
                                if ty.startswith("&mut "):
                                    for l in operand_locals(a):
                                        if l not in tainted:
                                            tainted.add(l)
                                            changed = True
        return tainted

    def back_slice(self, local, max_depth=50):
        """locals (and calls) that `local` is computed from: backward closure over defs."""
        seen = set()
        calls = []
        work = [local]
        while work:
            l = work.pop()
            if l in seen:
                continue
            seen.add(l)
            for d in self.defs().get(l, []):
                if d[0] == "s":
                    for x in rvalue_locals(d[3]):
                        work.append(x)
                elif d[0] == "call":
                    calls.append((d[1], d[3]))
                    for a in d[3]["args"]:
                        for x in operand_locals(a):
                            work.append(x)
        return seen, calls

    # ---------------------------------------------------------------- misc
    def bool_switch(self, b):
        """for `switchInt(x: bool)` return (discr operand, true_target, false_target) else None"""
        t = self.blocks[b]["t"]
        if t["k"] != "switch" or t["dty"] != "bool":
            return None
        tt = ft = None
        for v, tgt in t["ts"]:
            if v == "0":
                ft = tgt
            elif v == "1":
                tt = tgt
        if tt is None:
            tt = t["else"]
        if ft is None:
            ft = t["else"]
        return t["d"], tt, ft

    def var_name(self, local):
        for n, p in self.dbg:
            if p[0] == local and not p[1]:
                return n
        return None

    def loc(self, b):
        return "%s:%s" % (self.fn["file"], self.blocks[b]["t"]["line"])


def bodies(crate, pred=None):
    for fn in crate.fns:
        if "mir" in fn and (pred is None or pred(fn)):
            yield Body(fn)
