"""C03 / C01 — a view's buffer index is rebased only for views that reference a buffer.

A 16-byte view whose length is <= 12 stores its bytes inline: bytes 8..16 are DATA, not (buffer index, offset).  Every kernel that merges the
data buffers of several inputs rebases `buffer_index` of the views it copies; doing that to an inline view overwrites four bytes of the value.
All rebasing sites test the view's length against the inline threshold first -- a site that decides by something else (e.g. "this input has
no data buffers") corrupts inline values of inputs that do carry buffers (a scalar sliced out of a larger array)."""
import re
from . import flow
from .mirlib import Body, callee, op_const, op_local, op_place, rvalue_operands

CRATES = ["arrow_select", "arrow_array", "arrow_data", "arrow_cast", "arrow_ord", "arrow_string", "arrow_row", "arrow_ipc", "arrow_json", "parquet"]


def _is_threshold(b, op):
    k = op_const(op)
    if k is not None:
        txt = str(k[0] if isinstance(k, (list, tuple)) else k)
        return txt.endswith("MAX_INLINE_VIEW_LEN") or bool(re.match(r"^12_(u32|usize|u64|i32)$", txt))
    l = op_local(op)
    if l is None:
        return False
    ds = b.defs().get(l, [])
    if len(ds) == 1 and ds[0][0] == "s" and ds[0][3][0] in ("cast", "use"):
        o = ds[0][3][2] if ds[0][3][0] == "cast" else ds[0][3][1]
        return _is_threshold(b, o)
    return False


def _guarded(b, block):
    cd = flow.control_dependence(b)
    seen, st = set(), [block]
    while st:
        x = st.pop()
        for s in cd.get(x, ()):
            if s in seen:
                continue
            seen.add(s)
            st.append(s)
    for s in seen:
        for l in [op_local(b.term(s)["d"])]:
            if l is None:
                continue
            locs, _ = b.back_slice(l)
            for x in locs:
                for d in b.defs().get(x, []):
                    if d[0] == "s" and d[3][0] == "bin" and d[3][1] in ("Gt", "Ge", "Lt", "Le", "Eq", "Ne") and (_is_threshold(b, d[3][2]) or _is_threshold(b, d[3][3])):
                        return True
    return False


def run(ck, F, rule="C03.view-rebase-guarded", crates=CRATES, floor=6):
    ck.rule(rule, "every store to ByteView::buffer_index / call of with_buffer_index outside the constructors is control dependent on a test of the view's length "
            "against the inline threshold (MAX_INLINE_VIEW_LEN): an inline view has data where a buffer index would be", floor)
    for cn in crates:
        for fn in F.crate(cn).fns:
            if "mir" not in fn or re.search(r"byte_view::ByteView::(with_buffer_index|new|with_offset)$|::from$|::make_view", flow.norm(fn["id"])):
                continue
            b = Body(fn)
            sites = []
            for bl in range(b.n):
                for s in b.stmts(bl):
                    if s[0] == "a" and any(isinstance(e, list) and e[0] == "f" and e[2] == "buffer_index" for e in s[1][1]):
                        sites.append((bl, "store"))
                t = b.term(bl)
                if t["k"] == "call" and (callee(t) or "").endswith("ByteView::with_buffer_index"):
                    sites.append((bl, "with_buffer_index"))
            root = flow.norm(fn["id"])
            while "::{closure" in root:
                root = root[:root.rindex("::{closure")]
            for bl, kind in sites:
                key = "%s -> %s" % (root, kind)
                if _guarded(b, bl):
                    ck.ok(rule, key, "guarded by a test against the inline threshold")
                else:
                    ck.bad(rule, key, "%s rebases the buffer index of a view without testing its length against the inline threshold: for an inline view (<= 12 bytes) of an "
                           "input that carries data buffers this overwrites bytes 8..12 of the value" % fn["id"], b.loc(bl))
