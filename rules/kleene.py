"""Kleene and/or: the validity and value formulas, decided exactly.

The kernels combine 64-bit chunks of the operands' validity and value bitmaps with a straight-line closure of
`&`, `|`, `^`, `!`.  These operators act on every bit position independently, so the closure is a boolean
function of at most four one-bit inputs (a = left validity, b = left value, c = right validity, d = right value);
its complete truth table is obtained by evaluating the closure's MIR data flow once over 16-bit vectors that
enumerate all 16 input combinations (a finite abstract domain, nothing of arrow-rs is executed).  The table is
compared with three-valued logic for every combination, including a set value bit under a null slot."""
import re
from .mirlib import Body, callee, op_local, op_place, op_const

A, B, C, D = 0xFF00, 0xF0F0, 0xCCCC, 0xAAAA
M = 0xFFFF
VARS = {("nulls", 1): A, ("values", 1): B, ("nulls", 2): C, ("values", 2): D}


class Unsupported(Exception):
    pass


def eval_bitwise_closure(fn, inputs):
    """truth table of a straight-line bitwise closure: inputs = table per closure argument (locals 2..)"""
    b = Body(fn)
    env = {}
    for i, v in enumerate(inputs):
        env[2 + i] = v
    if b.argc != 1 + len(inputs):
        raise Unsupported("closure takes %d arguments, %d buffers are passed" % (b.argc - 1, len(inputs)))
    bl = 0
    seen = set()
    while True:
        if bl in seen:
            raise Unsupported("loop in closure")
        seen.add(bl)
        for s in b.stmts(bl):
            if s[0] != "a":
                continue
            if s[1][1]:
                raise Unsupported("projection store")
            env[s[1][0]] = _rv(b, s[2], env)
        t = b.term(bl)
        if t["k"] == "return":
            if 0 not in env:
                raise Unsupported("no value returned")
            return env[0] & M
        if t["k"] == "goto":
            bl = t["t"]
            continue
        if t["k"] == "call":
            n = callee(t) or ""
            m = re.search(r"ops::(BitAnd|BitOr|BitXor|Not)(?:<[^>]*>)?>?::(bitand|bitor|bitxor|not)$", n)
            if not m:
                raise Unsupported("call to %s" % n)
            args = [_op(b, a, env) for a in t["args"]]
            env[t["dest"][0]] = {"bitand": lambda x: x[0] & x[1], "bitor": lambda x: x[0] | x[1], "bitxor": lambda x: x[0] ^ x[1], "not": lambda x: ~x[0] & M}[m.group(2)](args)
            bl = t["t"]
            continue
        raise Unsupported("terminator %s" % t["k"])


def _op(b, op, env):
    l = op_local(op)
    if l is not None:
        p = op_place(op)
        if p[1] and any(e != "*" for e in p[1]):
            raise Unsupported("projection read")
        if l not in env:
            raise Unsupported("read of unassigned local _%d" % l)
        return env[l]
    k = op_const(op)
    if k is not None:
        txt = str(k[0] if isinstance(k, (list, tuple)) else k)
        m = re.match(r"^(\d+)_u64$|^u64::MAX$", txt)
        if txt.startswith("u64::MAX") or txt == "18446744073709551615_u64":
            return M
        if m and m.group(1) is not None:
            v = int(m.group(1))
            if v == 0:
                return 0
        raise Unsupported("constant %s" % txt)
    raise Unsupported("operand")


def _rv(b, rv, env):
    k = rv[0]
    if k == "use":
        return _op(b, rv[1], env)
    if k == "bin":
        x, y = _op(b, rv[2], env), _op(b, rv[3], env)
        o = rv[1]
        if o == "BitAnd":
            return x & y
        if o == "BitOr":
            return x | y
        if o == "BitXor":
            return x ^ y
        raise Unsupported("binary op %s" % o)
    if k == "un":
        if rv[1] == "Not":
            return ~_op(b, rv[2], env) & M
        raise Unsupported("unary op %s" % rv[1])
    if k == "ref":
        p = rv[2]
        if all(e == "*" for e in p[1]) and p[0] in env:
            return env[p[0]]
    raise Unsupported("rvalue %s" % k)


def role_of(b, local, depth=0, pending=()):
    """(kind, parameter) of a buffer operand: kind = 'nulls' | 'values', parameter = 1 (left) | 2 (right)"""
    if depth > 14:
        return None
    if 1 <= local <= b.argc and not pending:
        return (None, local)
    ds = b.defs().get(local, [])
    if len(ds) != 1:
        return None
    d = ds[0]
    if d[0] == "s":
        rv = d[3]
        if rv[0] in ("use", "ref"):
            p = op_place(rv[1]) if rv[0] == "use" else rv[2]
            if p is None:
                return None
            fields = [e[1] for e in p[1] if isinstance(e, list) and e[0] == "f"]
            return role_of(b, p[0], depth + 1, tuple(fields) + tuple(pending))
        if rv[0] == "agg" and rv[1][0] == "tuple" and pending:
            l = op_local(rv[2][pending[0]])
            return role_of(b, l, depth + 1, pending[1:]) if l is not None else None
        if rv[0] == "cast":
            l = op_local(rv[2])
            return role_of(b, l, depth + 1, pending) if l is not None else None
        return None
    if d[0] == "call":
        t = d[3]
        n = callee(t) or ""
        if not t["args"]:
            return None
        l = op_local(t["args"][0])
        if l is None:
            return None
        last = n.split("::")[-1]
        if last == "nulls":
            r = role_of(b, l, depth + 1, ())
            return ("nulls", r[1]) if r else None
        if last == "values":
            r = role_of(b, l, depth + 1, ())
            return ("values", r[1]) if r else None
        if last in ("buffer", "inner", "deref", "as_ref", "borrow", "clone", "validity", "into_inner"):
            return role_of(b, l, depth + 1, ())
    return None


SPEC = {
    # validity and value of the result, per three-valued logic
    "or": (lambda a, b, c, d: (a & c) | (a & b) | (c & d), lambda a, b, c, d: (a & b) | (c & d)),
    "and": (lambda a, b, c, d: (a & c) | (a & ~b & M) | (c & ~d & M), lambda a, b, c, d: ~((a & ~b) | (c & ~d)) & M),
}


def check(ck, F, rule, table, floor):
    ck.rule(rule, "Kleene and/or: the closure that combines validity and value bits is, bit position by bit position, a boolean function of "
            "(left valid, left value, right valid, right value); its complete truth table (16 rows, computed from the closure's MIR) equals three-valued logic -- in "
            "particular the result does not depend on the value bit under a null slot", floor=floor)
    for fid, op in table:
        fn = F.resolve(fid)
        if fn is None:
            ck.missing_anchor(fid, rule)
            continue
        b = Body(fn)
        valid_spec, value_spec = SPEC[op]
        want_valid = valid_spec(A, B, C, D) & M
        want_value = value_spec(A, B, C, D) & M
        crate = F.crate(fid.split("::")[0])
        closures = {c["id"]: c for c in crate.closures_of.get(fn["id"], [])}
        sites = 0
        for bb, t in b.calls():
            n = callee(t) or ""
            if n.endswith("::bitwise_quaternary_op_helper"):
                arr = op_local(t["args"][0])
                ds = b.defs().get(arr, [])
                bufs = [op_local(o) for o in ds[0][3][2]] if len(ds) == 1 and ds[0][0] == "s" and ds[0][3][0] == "agg" else []
                cl_l = op_local(t["args"][3])
            elif n.endswith("::from_bitwise_binary_op") or n.endswith("::bitwise_bin_op_helper"):
                bufs = [op_local(t["args"][0]), op_local(t["args"][2])]
                cl_l = op_local(t["args"][5])
            else:
                continue
            sites += 1
            key = "%s@%s" % (fid, "+".join("%s" % (role_of(b, x) or ("?", "?"),) for x in bufs))
            roles = [role_of(b, x) if x is not None else None for x in bufs]
            cds = b.defs().get(cl_l, [])
            cid = cds[0][3][1][1] if len(cds) == 1 and cds[0][0] == "s" and cds[0][3][0] == "agg" and cds[0][3][1][0] == "closure" else None
            if any(r is None or r[0] is None or r not in VARS for r in roles) or cid not in closures:
                ck.bad(rule, key, "%s: cannot attribute the buffers of %s to the operands' validity / values (roles %s): the call was restructured" % (fid, n.split("::")[-1], roles), b.loc(bb))
                continue
            key = "%s@%s" % (fid, "+".join("%s.%s" % ("left" if r[1] == 1 else "right", r[0]) for r in roles))
            try:
                got = eval_bitwise_closure(closures[cid], [VARS[r] for r in roles])
            except Unsupported as e:
                ck.bad(rule, key, "%s: the bit-combining closure is not a straight-line bitwise expression (%s)" % (fid, e), b.loc(bb))
                continue
            # a side whose validity buffer is not passed has no nulls: only rows where its validity bit is 1 are relevant
            present = {r for r in roles}
            care = M
            for var in (("nulls", 1), ("nulls", 2)):
                if var not in present:
                    care &= VARS[var]
            # rows that differ only in an input that is not passed (a value buffer not given to the closure) must agree anyway: the spec decides
            diff = (got ^ want_valid) & care
            if diff:
                rows = []
                for i in range(16):
                    if diff >> i & 1:
                        rows.append("left %s/%d right %s/%d -> %s (expected %s)" % ("valid" if A >> i & 1 else "null", B >> i & 1, "valid" if C >> i & 1 else "null", D >> i & 1,
                                                                                "valid" if got >> i & 1 else "null", "valid" if want_valid >> i & 1 else "null"))
                ck.bad(rule, key, "%s: result validity computed from (%s) differs from three-valued logic for %d of 16 bit combinations, e.g. %s" % (
                    fid, ", ".join("%s.%s" % ("left" if r[1] == 1 else "right", r[0]) for r in roles), len(rows), rows[0]), b.loc(bb))
            else:
                ck.ok(rule, key, "validity truth table equals Kleene %s on all relevant rows" % op)
        # the value bitmap of the result
        vsites = 0
        for bb, t in b.calls():
            n = callee(t) or ""
            m = re.search(r"::(bitand|bitor|bitxor)$", n)
            if not m or "BooleanBuffer" not in n:
                continue
            roles = [role_of(b, op_local(a)) if op_local(a) is not None else None for a in t["args"]]
            if any(r is None or r not in VARS for r in roles):
                continue
            vsites += 1
            x, y = VARS[roles[0]], VARS[roles[1]]
            got = {"bitand": x & y, "bitor": x | y, "bitxor": x ^ y}[m.group(1)]
            key = "%s@values" % fid
            diff = (got ^ want_value) & want_valid
            if diff:
                ck.bad(rule, key, "%s: the result's value bits (%s of %s) differ from three-valued logic on a valid result slot" % (fid, m.group(1), roles), b.loc(bb))
            else:
                ck.ok(rule, key, "value bits equal Kleene %s wherever the result is valid" % op)
        if sites < 3 or vsites < 1:
            ck.bad(rule, "%s@sites" % fid, "%s: expected three validity-combining calls (left nulls only, right nulls only, both) and one value-combining call, found %d / %d" % (fid, sites, vsites),
                   "%s:%s" % (fn["file"], fn["line"]))
