"""C03 — selection kernels (structural clauses).

1. every DataType constructor is routed by filter, take, concat, interleave and the MutableArrayData
   extend tables (implementation or generic fallback); the only constructors that reach a diverging arm
   are the enumerated ones handled elsewhere;  2. sibling arms of the strategy / type dispatches all use
   the slicing parameters (ARM-UNIFORM: 'one arm forgot + offset')."""
from . import facts as factsmod, flow, dtm, arms, nullguard, pairs
from .mirlib import Body

TOTAL = [
    ("filter_array", "arrow_select::filter::filter_array", "call:Array::data_type", set()),
    ("take_impl", "arrow_select::take::take_impl", "call:Array::data_type", set()),
    ("concat", "arrow_select::concat::concat", "call:Array::data_type", set()),
    ("interleave", "arrow_select::interleave::interleave", "call:Array::data_type", set()),
    ("build_extend", "arrow_data::transform::build_extend", "call:ArrayData::data_type",
     {"BinaryView", "Utf8View", "Dictionary"}),   # routed by MutableArrayData::with_capacities to build_extend_view / build_extend_dictionary before build_extend is reached
    ("build_extend_nulls", "arrow_data::transform::build_extend_nulls", 1, set()),
    ("make_array", "arrow_array::array::make_array", "call:ArrayData::data_type", set()),
    ("layout", "arrow_data::data::layout", 1, set()),
    ("new_buffers", "arrow_data::data::new_buffers", 1, set()),
]


import re
from .mirlib import callee, op_local

MASKS = [
    # (fn, name of the mask parameter as documented): a null in the mask means 'not selected'
    ("arrow_select::merge::merge", "mask"),
    ("arrow_select::zip::maybe_prep_null_mask_filter", "predicate"),
    ("arrow_select::nullif::nullif", "right"),
    ("arrow_select::filter::IndexIterator::new", "filter"),
]
MASK_READ = re.compile(r"BooleanArray::values$|SlicesIterator::new$|IndexIterator::new$|BitIndexIterator")
NULL_HANDLING = re.compile(r"::(null_count|nulls|prep_null_mask_filter|logical_nulls|is_null|is_valid|into_parts|logical_null_count)$")


def run_masks(ck, F):
    ck.rule("C03.mask-nulls-handled", "kernels taking a boolean selection mask read the mask's value bits only after consulting its validity (null = not selected): "
            "the bit under a null slot is arbitrary", floor=len(MASKS))
    for fid, pname in MASKS:
        fn = F.resolve(fid)
        if fn is None:
            ck.missing_anchor(fid, "C03.mask-nulls-handled")
            continue
        b = Body(fn)
        params = [i for i in range(1, b.argc + 1) if re.fullmatch(r"&arrow_array::(array::boolean_array::)?BooleanArray", b.locals[i])]
        verdicts = []
        for p in params:
            al = b.taint({p}, through_calls=False)
            reads = [bb for bb, t in b.calls() if MASK_READ.search(flow.norm(callee(t) or "")) and t["args"] and op_local(t["args"][0]) in al]
            if not reads:
                continue
            nh = [bb for bb, t in b.calls() if NULL_HANDLING.search(flow.norm(callee(t) or "")) and t["args"] and op_local(t["args"][0]) in al]
            verdicts.append((b.var_name(p), [b.loc(r) for r in reads if not (nh and b.must_pass(nh, r))]))
        key = flow.norm(fid)
        if not verdicts:
            ck.ok("C03.mask-nulls-handled", key, "the mask's value bits are not read directly any more", nontrivial=False)
        elif all(not bad for _, bad in verdicts):
            ck.ok("C03.mask-nulls-handled", key, "value bits of %s read only after the validity was consulted" % [v[0] for v in verdicts])
        else:
            ck.bad("C03.mask-nulls-handled", key, "%s reads the value bits of its mask at %s without first consulting the mask's validity: a null mask slot whose bit is set "
                   "selects the row" % (fid, [bad for _, bad in verdicts if bad]), [bad for _, bad in verdicts if bad][0][0])


def run(ck, tier):
    F = factsmod.Facts("ws")
    from . import influence as _infl
    _infl.run(ck, F, 'C03')
    from . import mustpass as _mp
    _mp.run(ck, F, 'C03')
    from . import accum as _acc2
    _acc2.run2(ck, F, 'C03')
    from . import relations as _rel
    _rel.run(ck, F, 'C03')
    from . import guards as _grd
    _grd.run(ck, F, 'C03')
    from . import siblings as _sib
    _sib.check(ck, F, 'C03')
    from . import c03x
    c03x.run(ck, F)
    from . import accum as _acc
    _acc.run(ck, F, 'C03')
    run_masks(ck, F)
    ck.rule("C03.dispatch-total", "filter / take / concat / interleave / MutableArrayData extend / make_array / layout route every DataType constructor to an "
            "implementation or the generic fallback; diverging arms are reached only by the enumerated constructors handled elsewhere", floor=len(TOTAL) * 38)
    variants = dtm.enum_variants(F, "arrow_schema::datatype::DataType")
    for iid, fid, key, allowed in TOTAL:
        fn = F.resolve(fid)
        if fn is None:
            ck.missing_anchor(fid, "C03.dispatch-total")
            continue
        b = Body(fn)
        resolved = False
        for name, d in variants:
            s = dtm.supported_under(b, {key: d})
            if s is not None:
                resolved = True
            routed = bool(s)
            if s is False and not flow.returns_result(b):
                r = dtm.reach_under(b, {key: d})
                routed = any(x in r for x in b.return_blocks())
            k = "%s:%s" % (iid, name)
            if routed or name in allowed:
                ck.ok("C03.dispatch-total", k, "routed" if routed else "diverging arm by design (handled before this table is consulted)")
            else:
                ck.bad("C03.dispatch-total", k, "%s has no implementation arm for %s (reaches only a diverging / error arm)" % (fid, name), "%s:%s" % (fn["file"], fn["line"]))
        if not resolved:
            ck.bad("C03.dispatch-total", iid + ":dispatch", "no dispatch on the data type found in %s (anchor moved)" % fid, "%s:%s" % (fn["file"], fn["line"]))
    ck.rule("C03.arm-uniform", "every arm of the selection-kernel dispatches uses the slicing parameters that its siblings use", floor=4)
    tab = [e for e in arms.load_table() if e["fn"].startswith(("arrow_select::", "arrow_data::transform"))]
    arms.check(ck, F, "C03.arm-uniform", tab)
    stab = [e for e in arms.load_sink_table() if e["fn"].startswith("arrow_data::transform") or e["fn"].startswith("arrow_select::")]
    ck.rule("C03.sink-uniform", "every arm of the MutableArrayData / selection dispatches lets the offset / length it was given influence what it returns", floor=len(stab))
    arms.check_sinks(ck, F, "C03.sink-uniform", stab)
    nullguard.check(ck, F, "C03.null-guarded-access", [f for f in nullguard.load_table() if f.startswith("arrow_select::")], 4)
    pairs.check_cross(ck, F, "C03.bitcopy-offset-slots", ["arrow_select", "arrow_data"], 2)
    pairs.check_threshold(ck, F, "C03.inline-view-threshold", ["arrow_select", "arrow_data", "arrow_array"], 15)
    ck.note("Decided: routing totality of 9 selection / construction dispatch tables over all 41 DataType constructors, arm uniformity of slicing parameters. "
            "Not decided: that exactly the selected rows are moved, coalescer batch sizes (value / history level).")
    return F.info
