"""C01 — a builder that has handed out an array starts the next one from a clean state.

`finish(&mut self)` of every array builder must write (reset, take or mutably borrow) every field that the appending methods write:
a de-duplication map, run-end counter or offset that survives `finish` makes the next array refer to values of the previous one
(dictionary keys past the end of the new values array, offsets that do not start at the new child's origin)."""
import re
from . import eff, flow
from .mirlib import Body, callee, op_local

EXEMPT = {
    ("arrow_array::builder::generic_bytes_view_builder::GenericByteViewBuilder", "block_size"):
        "allocation growth strategy: decides how large the next data block is, never what the array contains",
    ("arrow_array::builder::null_builder::NullBuilder", "len"):
        "a stale length yields a longer but perfectly valid NullArray (wrong content, no format invariant involved); recorded as an observation in DESIGN.md",
}
APPEND = re.compile(r"::(append\w*|extend\w*|push\w*)$")


def _takes_whole_self(fn):
    b = Body(fn)
    for bb, t in b.calls():
        if re.search(r"mem::(take|replace|swap)$", callee(t) or "") and t["args"]:
            l = op_local(t["args"][0])
            if l == 1 or (l is not None and 1 in flow.origin_locals(b, l)):
                return True
            # &mut *self reborrow
            for d in b.defs().get(l, []) if l is not None else []:
                if d[0] == "s" and d[3][0] == "ref" and d[3][2][0] == 1 and all(e == "*" for e in d[3][2][1]):
                    return True
    return False


def run(ck, F, rule="C01.builder-finish-resets"):
    ck.rule(rule, "for every array builder, finish(&mut self) writes (resets / takes / mutably borrows) every field that its append / extend methods write, or takes "
            "the whole builder (mem::take): no accumulation state survives into the next array", floor=15)
    by = {}
    for fn in F.crate("arrow_array").fns:
        if "mir" not in fn or fn["kind"] == "Closure" or "builder::" not in fn["id"] or not fn.get("impl_self"):
            continue
        by.setdefault(re.sub(r"<.*$", "", fn["impl_self"]), []).append(fn)
    for base, fns in sorted(by.items()):
        if not base.startswith("arrow_array::builder::"):
            continue
        fin = [f for f in fns if re.search(r"::finish$", f["id"]) and (f.get("inputs") or [""])[0].startswith("&mut")]
        app = [f for f in fns if APPEND.search(f["id"])]
        if not fin or not app:
            continue
        if any(_takes_whole_self(f) for f in fin):
            ck.ok(rule, base, "finish takes the whole builder")
            continue
        wf, wa = set(), set()
        for f in fin:
            wf |= eff.effects(F, f)[0]
        for f in app:
            wa |= eff.effects(F, f)[0]
        missing = sorted(x for x in wa - wf if (base, x) not in EXEMPT)
        if missing:
            f0 = fin[0]
            ck.bad(rule, base, "%s::finish leaves %s untouched although the append methods write %s: the next array built with the same builder starts from the "
                   "previous array's state" % (base, missing, "them" if len(missing) > 1 else "it"), "%s:%s" % (f0["file"], f0["line"]))
        else:
            ck.ok(rule, base, "finish writes %s" % sorted(wf))
