"""C13 — casts (first clause): can_cast_types(a, b) implies cast does not fail as unsupported.

Both dispatch tables (`can_cast_types` and `cast_with_options`, each a `match (from, to)` with ~200
arms, guards and helper predicates) are evaluated for every ordered pair of DataType constructors
(41 constructors, refined by TimeUnit / IntervalUnit to 55 types: ~2800 ordered pairs, read from the enum definitions).  can_cast is evaluated three-valued (helper predicates
such as is_numeric are evaluated on their own bodies; guards on payloads are unknown); cast support is
'an implementation arm is reachable once the dispatch is resolved for that pair'.  A violation is a
pair with can_cast definitely true and cast definitely routed to the unsupported-error arm."""
import re
from . import facts as factsmod, dtm, flow
from .mirlib import Body, callee, op_local

DT = "call:Array::data_type"
# one level of payload refinement: constructors whose unit decides which arm is taken
REFINE = {"Timestamp": "arrow_schema::datatype::TimeUnit", "Time32": "arrow_schema::datatype::TimeUnit", "Time64": "arrow_schema::datatype::TimeUnit",
          "Duration": "arrow_schema::datatype::TimeUnit", "Interval": "arrow_schema::datatype::IntervalUnit"}
# no array of these types can exist (PrimitiveArray::with_data_type rejects them), so they are not *source* types of a cast
NO_ARRAYS = {"Time32(Microsecond)", "Time32(Nanosecond)", "Time64(Second)", "Time64(Millisecond)"}


def refined_universe(F, variants):
    out = []
    for n, d in variants:
        if n in REFINE:
            for un, ud in dtm.enum_variants(F, REFINE[n]):
                out.append(("%s(%s)" % (n, un), n, d, (("@" + n, "0"), ud)))
        else:
            out.append((n, n, d, None))
    return out


# Utf8/LargeUtf8 and Utf8View entry points of the same text cast: they must hand the same work to the same generic implementation
STRING_VIEW_SIBLINGS = [("cast_string_to_timestamp", "cast_view_to_timestamp"), ("cast_string_to_interval", "cast_view_to_interval"),
                        ("cast_string_to_year_month_interval", "cast_view_to_year_month_interval"),
                        ("cast_string_to_day_time_interval", "cast_view_to_day_time_interval"),
                        ("cast_string_to_month_day_nano_interval", "cast_view_to_month_day_nano_interval"),
                        ("parse_string", "parse_string_view"), ("cast_utf8_to_boolean", "cast_utf8view_to_boolean")]
_CONTAINER_ARG = re.compile(r"Iter|Offset|^O$|StringViewArray|GenericStringArray|GenericByteArray|GenericByteViewArray|^'")


def _delegations(F, fid):
    fn = F.resolve("arrow_cast::cast::string::" + fid)
    if fn is None:
        return None, None
    b = Body(fn)
    out = set()
    for bb, t in b.calls():
        n = callee(t) or ""
        if not n.startswith("arrow_cast::"):
            continue
        ga = [re.sub(r"\{closure@[^}]*\}", "{closure}", g) for g in ((t.get("f") or {}).get("ga") or []) if not _CONTAINER_ARG.search(g)]
        out.add((n.split("::")[-1].replace("_view_", "_string_").replace("utf8view", "utf8"), tuple(ga)))
    return fn, out


def run_siblings(ck, F):
    ck.rule("C13.string-view-sibling-agreement", "the Utf8/LargeUtf8 entry point and the Utf8View entry point of the same text cast delegate to the same generic "
            "implementations with the same type arguments (apart from the container / iterator type): e.g. both instantiate the timestamp parser for the "
            "target time zone AND for Utc", floor=len(STRING_VIEW_SIBLINGS))
    for a, v in STRING_VIEW_SIBLINGS:
        fa, sa = _delegations(F, a)
        fv, sv = _delegations(F, v)
        key = "%s~%s" % (a, v)
        if fa is None or fv is None:
            ck.missing_anchor("arrow_cast::cast::string::" + (a if fa is None else v), "C13.string-view-sibling-agreement")
            continue
        if sa == sv:
            ck.ok("C13.string-view-sibling-agreement", key, "both delegate to %s" % sorted(sa))
        else:
            ck.bad("C13.string-view-sibling-agreement", key, "%s and %s no longer delegate alike: only the string path has %s, only the view path has %s: the same text casts "
                   "differently depending on the string container" % (a, v, sorted(sa - sv), sorted(sv - sa)), "%s:%s" % (fv["file"], fv["line"]))


_W = {"i8": 8, "u8": 8, "i16": 16, "u16": 16, "i32": 32, "u32": 32, "i64": 64, "u64": 64, "i128": 128, "u128": 128, "isize": 64, "usize": 64}


def run_narrowing(ck, F):
    ck.rule("C13.checked-narrowing", "the DecimalCast conversions (to_i32 / to_i64 / to_i128 / to_i256 / from_decimal / from_f64: `Option` means unrepresentable) contain no "
            "narrowing `as` between integer types and no float-to-int `as`: such a cast wraps or saturates instead of reporting None", floor=20)
    c = F.crate("arrow_cast")
    n = 0
    for fn in c.fns:
        if "mir" not in fn:
            continue
        top = fn
        while top.get("parent"):
            top = F.fn(top["parent"], required=False) or {}
        if "DecimalCast" not in (top.get("id") or "") and "DecimalCast" not in (top.get("impl_trait") or ""):
            continue
        n += 1
        b = Body(fn)
        bad = False
        for bl in range(b.n):
            for s in b.stmts(bl):
                if s[0] == "a" and s[2][0] == "cast":
                    rv = s[2]
                    l = op_local(rv[2])
                    src = b.locals[l] if l is not None else None
                    dst = rv[3] if len(rv) > 3 else None
                    if (src in _W and dst in _W and _W[src] > _W[dst]) or (rv[1] == "FloatToInt"):
                        bad = True
                        ck.bad("C13.checked-narrowing", "%s %s->%s" % (fn["id"], src, dst), "%s: `as` cast %s -> %s in a conversion whose contract is to return None for an "
                               "unrepresentable value: out-of-range values wrap / saturate silently" % (fn["id"], src, dst), b.loc(bl))
        if not bad:
            ck.ok("C13.checked-narrowing", fn["id"], "no narrowing `as`")


def run(ck, tier):
    F = factsmod.Facts("ws")
    from . import influence as _infl
    _infl.run(ck, F, 'C13')
    from . import mustpass as _mp
    _mp.run(ck, F, 'C13')
    from . import accum as _acc2
    _acc2.run2(ck, F, 'C13')
    from . import relations as _rel
    _rel.run(ck, F, 'C13')
    from . import guards as _grd
    _grd.run(ck, F, 'C13')
    from . import accum as _acc
    _acc.run(ck, F, 'C13')
    from . import c13x
    c13x.run_bounds(ck, F)
    c13x.run_narrowing(ck, F)
    ck.rule("C13.can-cast-implies-cast", "for every ordered pair of DataType constructors: can_cast_types definitely true => cast_with_options reaches an "
            "implementation arm (not the 'Casting from .. to .. not supported' arm)", floor=700)
    variants = dtm.enum_variants(F, "arrow_schema::datatype::DataType")
    cb = Body(F.fn("arrow_cast::cast::cast_with_options"))
    cache = {}
    stats = {"pairs": 0, "can_true": 0, "can_false": 0, "can_unknown": 0, "cast_supported": 0, "cast_unsupported": 0}
    oks_all = set(flow.ok_exits(cb))
    universe = refined_universe(F, variants)
    ck.count("refined_types", len(universe))
    for fname, fbase, fd, fp in universe:
        if fname in NO_ARRAYS:
            continue
        for tname, tbase, td, tp in universe:
            stats["pairs"] += 1
            a = {1: fd, 2: td}
            c = {DT: fd, 2: td}
            if fp:
                a[(1, fp[0])] = fp[1]
                c[(DT, fp[0])] = fp[1]
            if tp:
                a[(2, tp[0])] = tp[1]
                c[(2, tp[0])] = tp[1]
            can = dtm.eval_bool(F, "arrow_cast::cast::can_cast_types", a, cache=cache)
            sup = dtm.supported_under(cb, c)
            if fname == tname and sup is False:
                # identical types return early (`from_type == to_type`) before the dispatch
                r = dtm.reach_under(cb, c)
                sup = bool(oks_all & r)
            if sup is None:
                ck.bad("C13.can-cast-implies-cast", "dispatch", "cast_with_options no longer dispatches on (array.data_type(), to_type) (anchor moved)", None)
                return F.info
            stats["cast_supported" if sup else "cast_unsupported"] += 1
            if can == {True}:
                stats["can_true"] += 1
                if sup:
                    ck.ok("C13.can-cast-implies-cast", "%s->%s" % (fname, tname), "can_cast=true, cast arm reachable")
                else:
                    ck.bad("C13.can-cast-implies-cast", "%s->%s" % (fname, tname),
                           "can_cast_types(%s, %s) is true but cast_with_options routes the pair only to the unsupported-error arm" % (fname, tname), "arrow-cast/src/cast/mod.rs")
            elif can == {False}:
                stats["can_false"] += 1
            else:
                stats["can_unknown"] += 1
    for k, v in stats.items():
        ck.count(k, v)
    run_siblings(ck, F)
    run_narrowing(ck, F)
    ck.note("Decided: the inclusion can_cast => cast-supported on the full constructor grid (%d pairs, %d definitely castable). "
            "Not decided: value preservation, strict/safe duality, text round trips, pairs whose castability depends on payloads (%d)."
            % (stats["pairs"], stats["can_true"], stats["can_unknown"]))
    return F.info
