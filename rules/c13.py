"""C13 — casts (first clause): can_cast_types(a, b) implies cast does not fail as unsupported.

Both dispatch tables (`can_cast_types` and `cast_with_options`, each a `match (from, to)` with ~200
arms, guards and helper predicates) are evaluated for every ordered pair of DataType constructors
(41 constructors, refined by TimeUnit / IntervalUnit to 55 types: ~2800 ordered pairs, read from the enum definitions).  can_cast is evaluated three-valued (helper predicates
such as is_numeric are evaluated on their own bodies; guards on payloads are unknown); cast support is
'an implementation arm is reachable once the dispatch is resolved for that pair'.  A violation is a
pair with can_cast definitely true and cast definitely routed to the unsupported-error arm."""
from . import facts as factsmod, dtm, flow
from .mirlib import Body

DT = "call:Array::data_type"
# one level of payload refinement: constructors whose unit decides which arm is taken
REFINE = {"Timestamp": "arrow_schema::datatype::TimeUnit", "Time32": "arrow_schema::datatype::TimeUnit", "Time64": "arrow_schema::datatype::TimeUnit",
          "Duration": "arrow_schema::datatype::TimeUnit", "Interval": "arrow_schema::datatype::IntervalUnit"}
# no array of these types can exist (PrimitiveArray::with_data_type rejects them), so they are not *source* types of a cast
NO_ARRAYS = {"Time32(Microsecond)", "Time32(Nanosecond)", "Time64(Second)", "Time64(Millisecond)"}


def refined_universe(F, variants):
    out = []
    for n, d in variants:
        if n in REFINE:
            for un, ud in dtm.enum_variants(F, REFINE[n]):
                out.append(("%s(%s)" % (n, un), n, d, (("@" + n, "0"), ud)))
        else:
            out.append((n, n, d, None))
    return out


def run(ck, tier):
    F = factsmod.Facts("ws")
    ck.rule("C13.can-cast-implies-cast", "for every ordered pair of DataType constructors: can_cast_types definitely true => cast_with_options reaches an "
            "implementation arm (not the 'Casting from .. to .. not supported' arm)", floor=700)
    variants = dtm.enum_variants(F, "arrow_schema::datatype::DataType")
    cb = Body(F.fn("arrow_cast::cast::cast_with_options"))
    cache = {}
    stats = {"pairs": 0, "can_true": 0, "can_false": 0, "can_unknown": 0, "cast_supported": 0, "cast_unsupported": 0}
    oks_all = set(flow.ok_exits(cb))
    universe = refined_universe(F, variants)
    ck.count("refined_types", len(universe))
    for fname, fbase, fd, fp in universe:
        if fname in NO_ARRAYS:
            continue
        for tname, tbase, td, tp in universe:
            stats["pairs"] += 1
            a = {1: fd, 2: td}
            c = {DT: fd, 2: td}
            if fp:
                a[(1, fp[0])] = fp[1]
                c[(DT, fp[0])] = fp[1]
            if tp:
                a[(2, tp[0])] = tp[1]
                c[(2, tp[0])] = tp[1]
            can = dtm.eval_bool(F, "arrow_cast::cast::can_cast_types", a, cache=cache)
            sup = dtm.supported_under(cb, c)
            if fname == tname and sup is False:
                # identical types return early (`from_type == to_type`) before the dispatch
                r = dtm.reach_under(cb, c)
                sup = bool(oks_all & r)
            if sup is None:
                ck.bad("C13.can-cast-implies-cast", "dispatch", "cast_with_options no longer dispatches on (array.data_type(), to_type) (anchor moved)", None)
                return F.info
            stats["cast_supported" if sup else "cast_unsupported"] += 1
            if can == {True}:
                stats["can_true"] += 1
                if sup:
                    ck.ok("C13.can-cast-implies-cast", "%s->%s" % (fname, tname), "can_cast=true, cast arm reachable")
                else:
                    ck.bad("C13.can-cast-implies-cast", "%s->%s" % (fname, tname),
                           "can_cast_types(%s, %s) is true but cast_with_options routes the pair only to the unsupported-error arm" % (fname, tname), "arrow-cast/src/cast/mod.rs")
            elif can == {False}:
                stats["can_false"] += 1
            else:
                stats["can_unknown"] += 1
    for k, v in stats.items():
        ck.count(k, v)
    ck.note("Decided: the inclusion can_cast => cast-supported on the full constructor grid (%d pairs, %d definitely castable). "
            "Not decided: value preservation, strict/safe duality, text round trips, pairs whose castability depends on payloads (%d)."
            % (stats["pairs"], stats["can_true"], stats["can_unknown"]))
    return F.info
