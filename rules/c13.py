"""C13 — casts (first clause): can_cast_types(a, b) implies cast does not fail as unsupported.

Both dispatch tables (`can_cast_types` and `cast_with_options`, each a `match (from, to)` with ~200
arms, guards and helper predicates) are evaluated for every ordered pair of DataType constructors
(41 x 41 today, read from the enum definition).  can_cast is evaluated three-valued (helper predicates
such as is_numeric are evaluated on their own bodies; guards on payloads are unknown); cast support is
'an implementation arm is reachable once the dispatch is resolved for that pair'.  A violation is a
pair with can_cast definitely true and cast definitely routed to the unsupported-error arm."""
from . import facts as factsmod, dtm, flow
from .mirlib import Body

DT = "call:Array::data_type"


def run(ck, tier):
    F = factsmod.Facts("ws")
    ck.rule("C13.can-cast-implies-cast", "for every ordered pair of DataType constructors: can_cast_types definitely true => cast_with_options reaches an "
            "implementation arm (not the 'Casting from .. to .. not supported' arm)", floor=400)
    variants = dtm.enum_variants(F, "arrow_schema::datatype::DataType")
    cb = Body(F.fn("arrow_cast::cast::cast_with_options"))
    cache = {}
    stats = {"pairs": 0, "can_true": 0, "can_false": 0, "can_unknown": 0, "cast_supported": 0, "cast_unsupported": 0}
    oks_all = set(flow.ok_exits(cb))
    for fname, fd in variants:
        for tname, td in variants:
            stats["pairs"] += 1
            can = dtm.eval_bool(F, "arrow_cast::cast::can_cast_types", {1: fd, 2: td}, cache=cache)
            sup = dtm.supported_under(cb, {DT: fd, 2: td})
            if fname == tname and sup is False:
                # identical types return early (`from_type == to_type`) before the dispatch
                r = dtm.reach_under(cb, {DT: fd, 2: td})
                sup = bool(oks_all & r)
            if sup is None:
                ck.bad("C13.can-cast-implies-cast", "dispatch", "cast_with_options no longer dispatches on (array.data_type(), to_type) (anchor moved)", None)
                return F.info
            stats["cast_supported" if sup else "cast_unsupported"] += 1
            if can == {True}:
                stats["can_true"] += 1
                if sup:
                    ck.ok("C13.can-cast-implies-cast", "%s->%s" % (fname, tname), "can_cast=true, cast arm reachable")
                else:
                    ck.bad("C13.can-cast-implies-cast", "%s->%s" % (fname, tname),
                           "can_cast_types(%s, %s) is true but cast_with_options routes the pair only to the unsupported-error arm" % (fname, tname), "arrow-cast/src/cast/mod.rs")
            elif can == {False}:
                stats["can_false"] += 1
            else:
                stats["can_unknown"] += 1
    for k, v in stats.items():
        ck.count(k, v)
    ck.note("Decided: the inclusion can_cast => cast-supported on the full constructor grid (%d pairs, %d definitely castable). "
            "Not decided: value preservation, strict/safe duality, text round trips, pairs whose castability depends on payloads (%d)."
            % (stats["pairs"], stats["can_true"], stats["can_unknown"]))
    return F.info
