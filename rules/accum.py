"""ACCUMULATOR RATCHET — an accumulator that was reset inside a loop is still reset inside it.

A named local that is updated from its own previous value inside a loop (`x |= ..`, `x += ..`, `x = x << 8 | b`) and that ALSO receives a fresh,
self-independent value inside the same loop nest on the reference tree (`let mut x = 0;` in the outer loop's body) is a per-iteration
accumulator.  If, later, the variable is still updated in a loop but no longer receives a fresh value inside any loop, the reset was hoisted
out: every iteration after the first starts from the previous iteration's bits."""
import json, os, re
from . import flow
from .mirlib import Body, rvalue_locals

TABLE = os.path.join(os.path.dirname(__file__), "tables", "accumulators.json")


def _cycle_blocks(b):
    reach = b.reachable(0)
    out = set()
    for x in reach:
        for s in b.succ(x):
            if x in b.reachable(s):
                out.add(x)
                break
    return out


def accumulators(fn):
    """{variable name: (self-updated in a loop, freshly assigned in a loop)}"""
    b = Body(fn)
    if b.n > 600:
        return {}
    cyc = _cycle_blocks(b)
    if not cyc:
        return {}
    names = {}
    for nm, pl in b.dbg:
        if isinstance(pl, list) and isinstance(pl[0], int) and not pl[1] and pl[0] > b.argc and nm != "args":
            names.setdefault(nm, []).append(pl[0])
    out = {}
    flat = []
    for nm, locs in names.items():
        for i, l in enumerate(locs):
            flat.append((nm if len(locs) == 1 else "%s#%d" % (nm, i), l))
    for nm, l in flat:
        if b.locals[l] not in ("u8", "u16", "u32", "u64", "u128", "usize", "i8", "i16", "i32", "i64", "i128", "isize", "bool"):
            continue
        self_upd = fresh = False
        for d in b.defs().get(l, []):
            if d[0] != "s" or d[1] not in cyc:
                continue
            deps = set(rvalue_locals(d[3]))
            # one level through temporaries: `_t = BitOr(x, y); x = move _t`
            more = set()
            for t in deps:
                for d2 in b.defs().get(t, []):
                    if d2[0] == "s":
                        more |= set(rvalue_locals(d2[3]))
                        for t2 in rvalue_locals(d2[3]):
                            for d3 in b.defs().get(t2, []):
                                if d3[0] == "s":
                                    more |= set(rvalue_locals(d3[3]))
            if l in deps or l in more:
                self_upd = True
            else:
                fresh = True
        if self_upd:
            out[nm] = [self_upd, fresh]
    return out


def build_table(F, crates):
    tab = {}
    for cn in crates:
        for fn in F.crate(cn).fns:
            if "mir" not in fn:
                continue
            acc = {k: v for k, v in accumulators(fn).items() if v[1]}
            if acc:
                tab[flow.norm(fn["id"])] = sorted(acc)
    return tab


def check(ck, F, rule, prefixes, floor):
    tab = json.load(open(TABLE))
    ck.rule(rule, "a named accumulator that is updated from its own value inside a loop and was given a fresh value inside the loop nest on the reference tree still is: "
            "a reset hoisted out of the loop makes every later iteration start from the previous one's bits", floor)
    for fid, vars_ in sorted(tab.items()):
        if not any(fid.lstrip("<").startswith(p) for p in prefixes):
            continue
        fn = F.resolve(fid)
        if fn is None or "mir" not in fn:
            continue
        if flow.calls_new_function(F, fn):
            for v in vars_:
                ck.ok(rule, "%s#%s" % (fid, v), "not compared: the function now calls a helper that did not exist on the reference tree", nontrivial=False)
            continue
        cur = accumulators(fn)
        for v in vars_:
            key = "%s#%s" % (fid, v)
            if v not in cur:
                ck.ok(rule, key, "no longer an in-loop accumulator (renamed or restructured): not comparable", nontrivial=False)
            elif cur[v][1]:
                ck.ok(rule, key, "reset inside the loop")
            else:
                ck.bad(rule, key, "in %s the accumulator `%s` is still updated from its own value inside a loop but no longer receives a fresh value inside the loop: its "
                       "reset was hoisted out, so state leaks from one iteration (chunk, row, block) into the next" % (fid, v), "%s:%s" % (fn["file"], fn["line"]))


def run(ck, F, pid):
    from .influence import SCOPE
    if pid not in FLOORS:
        return
    check(ck, F, "%s.accumulator-reset-kept" % pid, SCOPE[pid][0], FLOORS[pid])


FLOORS = {
 'C01': 5,
 'C02': 2,
 'C03': 2,
 'C08': 5,
 'C09': 5,
 'C10': 1,
 'C11': 7,
 'C13': 1,
 'C16': 5,
}


# ---------------------------------------------------------------------------------------------------------
# the converse ratchet: a variable that accumulates across the iterations of a loop keeps accumulating.
TABLE2 = os.path.join(os.path.dirname(__file__), "tables", "accumulating.json")


def self_updates(fn):
    """names of locals (or `*local` for `&mut` bindings) that are assigned from their own previous value inside a loop"""
    b = Body(fn)
    if b.n > 600:
        return None
    cyc = _cycle_blocks(b)
    names = {}
    for nm, pl in b.dbg:
        if isinstance(pl, list) and isinstance(pl[0], int) and not pl[1] and nm != "args":
            names.setdefault(nm, []).append(pl[0])
    flat = []
    for nm, locs in names.items():
        for i, l in enumerate(locs):
            flat.append((nm if len(locs) == 1 else "%s#%d" % (nm, i), l))
    out = {}
    for nm, l in flat:
        assigned_in_loop = self_dep = False
        for bl in cyc:
            for s in b.stmts(bl):
                if s[0] != "a" or s[1][0] != l:
                    continue
                if s[1][1] and any(e != "*" for e in s[1][1]):
                    continue            # a field / element of the variable, not the variable
                assigned_in_loop = True
                deps = set(rvalue_locals(s[2]))
                more = set(deps)
                for _ in range(3):
                    nxt = set()
                    for t in more:
                        if t == l:
                            continue
                        for d2 in b.defs().get(t, []):
                            if d2[0] == "s":
                                nxt |= set(rvalue_locals(d2[3]))
                    more |= nxt
                if l in more:
                    self_dep = True
        if assigned_in_loop:
            out[nm] = self_dep
    return out


def build_table2(F, crates):
    tab = {}
    for cn in crates:
        for fn in F.crate(cn).fns:
            if "mir" not in fn:
                continue
            su = self_updates(fn)
            if su:
                acc = sorted(k for k, v in su.items() if v)
                if acc:
                    tab[flow.norm(fn["id"])] = acc
    return tab


def check2(ck, F, rule, prefixes, floor):
    tab = json.load(open(TABLE2))
    ck.rule(rule, "a named variable that is updated from its own previous value inside a loop on the reference tree (`has_nulls |= ..`, `*length += ..`) and is still "
            "assigned inside a loop is still updated from its own value: `|=` / `+=` turned into `=` keeps only the last iteration's contribution", floor)
    for fid, vars_ in sorted(tab.items()):
        if not any(fid.lstrip("<").startswith(p) for p in prefixes):
            continue
        fn = F.resolve(fid)
        if fn is None or "mir" not in fn:
            continue
        cur = self_updates(fn)
        if cur is None:
            continue
        if flow.calls_new_function(F, fn):
            for v in vars_:
                ck.ok(rule, "%s#%s" % (fid, v), "not compared: the function now calls a helper that did not exist on the reference tree", nontrivial=False)
            continue
        for v in vars_:
            key = "%s#%s" % (fid, v)
            if v not in cur:
                ck.ok(rule, key, "no longer assigned in a loop (renamed or restructured): not comparable", nontrivial=False)
            elif cur[v]:
                ck.ok(rule, key, "still accumulates", nontrivial=False)
            else:
                ck.bad(rule, key, "in %s `%s` is still assigned inside a loop but no longer from its own previous value: what earlier iterations contributed is overwritten"
                       % (fid, v), "%s:%s" % (fn["file"], fn["line"]))


def run2(ck, F, pid):
    from .influence import SCOPE
    if pid not in FLOORS2:
        return
    check2(ck, F, "%s.accumulation-kept" % pid, SCOPE[pid][0], FLOORS2[pid])


FLOORS2 = {
 'C01': 16,
 'C02': 8,
 'C03': 19,
 'C04': 0,
 'C07': 10,
 'C08': 66,
 'C09': 11,
 'C10': 6,
 'C11': 16,
 'C12': 2,
 'C13': 12,
 'C14': 10,
 'C16': 16,
 'C18': 10,
}
