"""C14 — incremental decoders are independent of chunking (structural necessary conditions).

1. reset completeness: fields an accumulating method writes are re-initialised by the emitting method
   (a field that accumulates and is not reset leaks rows of batch n into batch n+1 only when the batch
   boundary falls inside a chunk);
2. buffered-state guards: zero-copy fast paths that take bytes straight from the caller's chunk are
   taken only when nothing is buffered (control dependence on `self.buf.is_empty()`);
3. state is advanced after every completed message; one-shot flags are cleared only after the guarded
   action succeeded;
4. finish/flush reject a partial record (a rejecting exit depends on the partial-state fields)."""
import re
from . import facts as factsmod, flow, eff, disc
from .mirlib import Body, callee, op_local, op_place, operand_locals

RESET = [
    # (instance, crate, type, reset method, fields that must be written)
    ("csv-records-clear", "arrow_csv", "arrow_csv::reader::records::RecordDecoder", "clear", {"data_len", "num_rows", "offsets_len"}),
    ("csv-records-flush", "arrow_csv", "arrow_csv::reader::records::RecordDecoder", "flush", {"data_len", "num_rows", "offsets_len"}),
    ("csv-decoder-flush", "arrow_csv", "arrow_csv::reader::Decoder", "flush", {"record_decoder"}),
    ("json-tape-clear", "arrow_json", "arrow_json::reader::tape::TapeDecoder", "clear", {"bytes", "cur_row", "elements", "offsets"}),
    ("json-decoder-flush", "arrow_json", "arrow_json::reader::Decoder", "flush", {"tape_decoder"}),
    ("avro-flush", "arrow_avro", "arrow_avro::reader::Decoder", "flush", {"remaining_capacity", "active_decoder"}),
    ("avro-flush_and_reset", "arrow_avro", "arrow_avro::reader::Decoder", "flush_and_reset", {"remaining_capacity"}),
    ("parquet-pushbuffers-clear", "parquet", "parquet::util::push_buffers::PushBuffers", "clear_all_ranges", {"buffers", "ranges"}),
]
ACCUM = {
    "arrow_csv::reader::records::RecordDecoder": "decode", "arrow_csv::reader::Decoder": "decode",
    "arrow_json::reader::tape::TapeDecoder": "decode", "arrow_json::reader::Decoder": "decode",
    "arrow_avro::reader::Decoder": "decode", "parquet::util::push_buffers::PushBuffers": "push_range",
}

GUARDS = [
    # (instance, fn, guarded callee, guard call, guard field, minimum number of guarded sites)
    ("ipc-zero-copy-needs-empty-buf", "arrow_ipc::reader::stream::StreamDecoder::decode", re.compile(r"Buffer::slice_with_length$"),
     re.compile(r"::is_empty$"), "buf", 2),
]

ADVANCE = [
    # (instance, fn, completion events, field that must be stored before returning Ok / looping on)
    ("ipc-state-reset-after-message", "arrow_ipc::reader::stream::StreamDecoder::decode",
     re.compile(r"(RecordBatchDecoder::<'a>::read_record_batch|RecordBatchDecoder::read_record_batch|read_dictionary_impl|try_fb_to_schema)$"), "state"),
]

AFTER = [
    # (instance, fn, field, value stored, call that must have succeeded first)
    ("csv-header-validated-before-flag-cleared", "arrow_csv::reader::Decoder::decode", "header_validation", "false", re.compile(r"validate_header$")),
]

PAIRED_STATE = [
    # (instance, fn, field A, field B): resumable decoder state that only makes sense together
    ("avro-vlq-state", "arrow_avro::reader::vlq::VLQDecoder::long", "in_progress", "shift"),
]

STATE_CONSULTED = [
    # (instance, fn, carried-state field, enum variant that completes a value): completing a value must read the carried state
    ("avro-vlq-completion-reads-state", "arrow_avro::reader::vlq::VLQDecoder::long", "in_progress", "Some"),
]

PARTIAL = [
    # (instance, fn, fields a rejecting exit must depend on)
    ("csv-flush-rejects-partial-record", "arrow_csv::reader::records::RecordDecoder::flush", {"current_field"}),
    ("json-finish-rejects-open-value", "arrow_json::reader::tape::TapeDecoder::finish", {"stack"}),
    ("ipc-finish-rejects-partial-message", "arrow_ipc::reader::stream::StreamDecoder::finish", {"state"}),
]


def find_method(F, crate, ty, name):
    for fn in eff.methods_of(F, crate, ty):
        if fn["id"].split("::")[-1] == name and not fn.get("impl_trait"):
            return fn
    raise factsmod.MissingAnchor("%s::%s" % (ty, name))


def place_field(p):
    for e in p[1]:
        if isinstance(e, list) and e[0] == "f":
            return e[2]
    return None


locals_reading_field = flow.locals_reading_field
switches_depending_on_field = flow.switches_depending_on_field


def run_resumable(ck, F):
    ck.rule("C14.paired-state", "the fields of a resumable decoder's carried state are written together: a store to one is accompanied (same block, dominated by, or "
            "inevitably followed by) a store to the other, so an early return for 'need more input' cannot persist half of the state", floor=len(PAIRED_STATE))
    for iid, fid, fa, fb in PAIRED_STATE:
        fn = F.resolve(fid)
        if fn is None:
            ck.missing_anchor(fid, "C14.paired-state")
            continue
        b = Body(fn)
        sa = sorted(set(sb for sb, si, st in flow.field_stores(b, fa)))
        sb_ = sorted(set(sb for sb, si, st in flow.field_stores(b, fb)))
        rets = set(b.return_blocks())

        def accompanied(x, others):
            if x in others:
                return True
            if b.must_pass(others, x):          # an `others` store dominates x
                return True
            r = set()
            for s_ in b.succ(x):
                r |= b.reachable(s_, removed_blocks=others)
            return not (r & rets)               # every path on to return passes an `others` store
        bad = [(fa, b.loc(x)) for x in sa if not accompanied(x, sb_)] + [(fb, b.loc(x)) for x in sb_ if not accompanied(x, sa)]
        if sa and sb_ and not bad:
            ck.ok("C14.paired-state", iid, "%d stores of %s and %d of %s, always together" % (len(sa), fa, len(sb_), fb))
        else:
            ck.bad("C14.paired-state", iid, "%s stores %s without the matching store of the other state field (stores: %s=%d, %s=%d): when the input ends inside a "
                   "value the decoder resumes from inconsistent state" % (fid, bad, fa, len(sa), fb, len(sb_)), bad[0][1] if bad else "%s:%s" % (fn["file"], fn["line"]))

    ck.rule("C14.resume-state-consulted", "a resumable decoder completes a value only on paths that read its carried partial state (a fast path that decodes from the "
            "current chunk alone drops the bytes consumed by earlier calls)", floor=len(STATE_CONSULTED))
    for iid, fid, field, variant in STATE_CONSULTED:
        fn = F.resolve(fid)
        if fn is None:
            ck.missing_anchor(fid, "C14.resume-state-consulted")
            continue
        b = Body(fn)
        readers = set()
        for bl in range(b.n):
            for st in b.stmts(bl):
                if st[0] == "a":
                    from .mirlib import rvalue_operands
                    for op in rvalue_operands(st[2]):
                        pl = op_place(op)
                        if pl is not None and any(isinstance(e, list) and e[0] == "f" and e[2] == field for e in pl[1]):
                            readers.add(bl)
        completes = [bl for bl in range(b.n) for st in b.stmts(bl)
                     if st[0] == "a" and st[2][0] == "agg" and st[2][1][0] == "adt" and st[2][1][1] == "std::option::Option" and st[2][1][3] == variant]
        bad = [b.loc(x) for x in completes if not b.must_pass(sorted(readers), x)]
        if completes and readers and not bad:
            ck.ok("C14.resume-state-consulted", iid, "%d completion site(s), all after a read of self.%s" % (len(completes), field))
        else:
            ck.bad("C14.resume-state-consulted", iid, "%s completes a value at %s without reading self.%s: bytes of the value consumed by an earlier call are ignored" % (fid, bad or "(no completion site found)", field),
                   bad[0] if bad else "%s:%s" % (fn["file"], fn["line"]))



def run(ck, tier):
    F = factsmod.Facts("ws")
    from . import influence as _infl
    _infl.run(ck, F, 'C14')
    from . import mustpass as _mp
    _mp.run(ck, F, 'C14')
    from . import accum as _acc2
    _acc2.run2(ck, F, 'C14')
    from . import relations as _rel
    _rel.run(ck, F, 'C14')
    from . import guards as _grd
    _grd.run(ck, F, 'C14')
    from . import c14x
    c14x.run(ck, F)
    ck.rule("C14.reset-completeness", "the emitting method of each push decoder re-initialises every accumulation field listed for it, and those fields "
            "are indeed written by the accumulating method", floor=len(RESET))
    for iid, crate, ty, meth, need in RESET:
        try:
            fn = find_method(F, crate, ty, meth)
            acc = find_method(F, crate, ty, ACCUM[ty])
        except factsmod.MissingAnchor as e:
            ck.missing_anchor(str(e), "C14.reset-completeness")
            continue
        w, _ = eff.effects(F, fn)
        wa, _ = eff.effects(F, acc)
        missing = sorted(need - w)
        stale = sorted(need - wa)
        if missing:
            ck.bad("C14.reset-completeness", iid, "%s::%s no longer resets %s (still accumulated by %s): state of one batch leaks into the next when the "
                   "boundary falls inside a chunk" % (ty, meth, missing, ACCUM[ty]), "%s:%s" % (fn["file"], fn["line"]))
        elif stale:
            ck.bad("C14.reset-completeness", iid, "fields %s are no longer written by %s::%s: the reset table is stale (anchor moved)" % (stale, ty, ACCUM[ty]), "%s:%s" % (acc["file"], acc["line"]))
        else:
            ck.ok("C14.reset-completeness", iid, "%s writes %s" % (meth, sorted(need)))

    ck.rule("C14.buffered-state-guard", "a fast path that consumes bytes directly from the caller's chunk is control dependent on the internal buffer being empty", floor=len(GUARDS))
    for iid, fid, guarded, gcall, gfield, nmin in GUARDS:
        try:
            fn = F.fn(fid)
        except factsmod.MissingAnchor:
            ck.missing_anchor(fid, "C14.buffered-state-guard")
            continue
        b = Body(fn)
        sites = [bb for bb, t in b.calls() if guarded.search(callee(t) or "")]

        def pred(body, sb, gcall=gcall, gfield=gfield):
            calls, _ = flow.switch_discr_sources(body, sb)
            fl = locals_reading_field(body, gfield)
            for c in calls:
                if gcall.search(flow.norm(callee(c) or "")) and any(l in fl or l in body.taint(fl) for a in c["args"] for l in operand_locals(a)):
                    return True
            return False
        unguarded = [b.loc(s) for s in sites if not flow.control_dependent_on(b, s, pred)]
        if len(sites) >= nmin and not unguarded:
            ck.ok("C14.buffered-state-guard", iid, "%d sites, all behind %s(self.%s)" % (len(sites), gcall.pattern, gfield))
        else:
            ck.bad("C14.buffered-state-guard", iid, "%s: %s reachable without testing self.%s (sites %s; %d found, %d expected): with bytes already buffered the "
                   "decoder would take the next chunk's bytes as the start of the message" % (fid, guarded.pattern, gfield, unguarded, len(sites), nmin), unguarded[0] if unguarded else "%s:%s" % (fn["file"], fn["line"]))

    ck.rule("C14.state-advanced", "after every completed message the decoder stores its next state before it can return Ok or look at more input", floor=len(ADVANCE))
    for iid, fid, events, field in ADVANCE:
        try:
            fn = F.fn(fid)
        except factsmod.MissingAnchor:
            ck.missing_anchor(fid, "C14.state-advanced")
            continue
        b = Body(fn)
        ev = [bb for bb, t in b.calls() if events.search(flow.norm(callee(t) or "")) or events.search(callee(t) or "")]
        stores = set(sb for sb, si, st in flow.field_stores(b, field))
        oks = set(flow.ok_exits(b))
        bad = []
        for e in ev:
            t = b.term(e)
            if "t" not in t:
                continue
            # follow the success continuation (through `?`) : reachable set avoiding stores and rejecting exits
            r = b.reachable(t["t"], removed_blocks=stores | set(flow.err_exits(b)))
            if r & oks:
                bad.append(b.loc(e))
        if ev and not bad:
            ck.ok("C14.state-advanced", iid, "%d completion events, each followed by a store to self.%s" % (len(ev), field))
        else:
            ck.bad("C14.state-advanced", iid, "%s: after %s the decoder can return Ok without storing self.%s (events found: %d)" % (fid, bad, field, len(ev)), bad[0] if bad else "%s:%s" % (fn["file"], fn["line"]))

    ck.rule("C14.flag-after-success", "a one-shot flag is cleared only on the path where the action it guards has succeeded", floor=len(AFTER))
    for iid, fid, field, val, need in AFTER:
        try:
            fn = F.fn(fid)
        except factsmod.MissingAnchor:
            ck.missing_anchor(fid, "C14.flag-after-success")
            continue
        b = Body(fn)
        through = flow.kept_call_blocks(b, need)
        stores = [sb for sb, si, st in flow.field_stores(b, field) if st[2][0] == "use" and st[2][1][0] == "k" and st[2][1][1] == val]
        bad = [b.loc(s) for s in stores if not b.must_pass(through, s)]
        if stores and through and not bad:
            ck.ok("C14.flag-after-success", iid, "%d stores, all after %s" % (len(stores), need.pattern))
        else:
            ck.bad("C14.flag-after-success", iid, "%s clears self.%s at %s without having passed %s: if the input chunk ends before the action completes it is never retried"
                   % (fid, field, bad or "(no store found)", need.pattern), bad[0] if bad else "%s:%s" % (fn["file"], fn["line"]))

    run_resumable(ck, F)

    ck.rule("C14.partial-input-rejected", "finish/flush have a rejecting exit that depends on the partial-record state", floor=len(PARTIAL))
    for iid, fid, fields in PARTIAL:
        try:
            fn = F.fn(fid)
        except factsmod.MissingAnchor:
            ck.missing_anchor(fid, "C14.partial-input-rejected")
            continue
        b = Body(fn)
        rej = flow.reject_blocks(b)
        missing = []
        for f in sorted(fields):
            ok = False
            oks = set(flow.ok_exits(b)) - rej
            for sb in switches_depending_on_field(b, f):
                succs = b.succ(sb)
                to_rej = [t_ for t_ in succs if b.reachable(t_) & rej]
                to_ok = [t_ for t_ in succs if b.reachable(t_, removed_blocks=rej) & oks]
                if to_rej and to_ok and set(to_rej) != set(to_ok) or (to_rej and to_ok and len(succs) > 1 and any(t_ not in to_ok for t_ in to_rej)):
                    ok = True
            if not ok:
                missing.append(f)
        if missing:
            ck.bad("C14.partial-input-rejected", iid, "%s has no rejecting exit depending on self.%s: a record cut by the end of input would be emitted or dropped silently" % (fid, missing), "%s:%s" % (fn["file"], fn["line"]))
        else:
            ck.ok("C14.partial-input-rejected", iid, "rejects depending on %s" % sorted(fields))
    ck.note("Decided: reset completeness of 8 emit/reset methods, buffered-state guards, state advance after completed IPC messages, one-shot flag ordering, "
            "partial-input rejection in finish/flush. Not decided: that every chunking yields identical rows (a relation over schedules).")
    return F.info
