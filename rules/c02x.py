"""C02 — the range comparators of arrow_data::equal test validity at positions relative to the range they were given.

Every `*_equal(lhs, rhs, lhs_start, rhs_start, len)` walks `len` slots starting at `lhs_start` / `rhs_start`.  A validity test inside it is
either made at `start + i` or on a null buffer that was sliced by `start` first; a test at the bare loop index reads the validity of
slot i instead of slot start + i, which is invisible until a parent (list, struct, sliced array) hands down a non-zero start."""
import re
from . import flow
from .mirlib import Body, callee, op_local, op_place, rvalue_operands


def _arith_roots(b, local):
    """parameters / captured variables that reach `local` through copies, casts and arithmetic only (no calls)"""
    roots, seen, work = set(), set(), [local]
    while work:
        l = work.pop()
        if l in seen:
            continue
        seen.add(l)
        if 1 <= l <= b.argc:
            roots.add(("param", l))
        for d in b.defs().get(l, []):
            if d[0] != "s" or d[3][0] not in ("use", "cast", "bin", "un", "ref"):
                continue
            for op in rvalue_operands(d[3]):
                p = op_place(op)
                if p is None:
                    continue
                fl = [e[1] for e in p[1] if isinstance(e, list) and e[0] == "f"]
                if p[0] == 1 and fl and b.fn["kind"] == "Closure":
                    roots.add(("up", fl[0]))
                elif 1 <= p[0] <= b.argc:
                    roots.add(("param", p[0]))
                work.append(p[0])
    return roots


def run(ck, F, rule="C02.null-test-relative-to-start"):
    ck.rule(rule, "in the range comparators of arrow_data::equal every is_null / is_valid test is made at an index that includes lhs_start / rhs_start, or on a "
            "null buffer sliced by it", floor=12)
    for fn in F.crate("arrow_data").fns:
        if "mir" not in fn or not fn["id"].startswith("arrow_data::equal::"):
            continue
        b = Body(fn)
        starts = {}
        for nm, pl in b.dbg:
            if not isinstance(pl, list) or not re.search(r"^(lhs|rhs)_start$", nm):
                continue
            if not pl[1] and pl[0] <= b.argc:
                starts[nm] = ("param", pl[0])
            elif pl[0] == 1:
                fl = [e[1] for e in pl[1] if isinstance(e, list) and e[0] == "f"]
                if fl:
                    starts[nm] = ("up", fl[0])
        if not starts:
            continue
        root = flow.norm(fn["id"])
        while "::{closure" in root:
            root = root[:root.rindex("::{closure")]
        n = 0
        for bb, t in b.calls():
            cn = callee(t) or ""
            if not re.search(r"::(is_null|is_valid)$", cn) or len(t["args"]) < 2:
                continue
            il, rl = op_local(t["args"][1]), op_local(t["args"][0])
            if il is None:
                continue
            n += 1
            key = "%s#%d" % (root, n)
            via_index = _arith_roots(b, il) & set(starts.values())
            via_recv = set()
            if rl is not None:
                for r in flow.influence_roots(b, rl):
                    if r[0] == "param" and len(r) == 2 and ("param", r[1]) in starts.values():
                        via_recv.add(r)
                    if r[0] == "param" and r[1] == 1 and len(r) > 2 and b.fn["kind"] == "Closure" and ("up", int(r[2]) if str(r[2]).isdigit() else r[2]) in starts.values():
                        via_recv.add(r)
            if via_index or via_recv:
                ck.ok(rule, key, "start reaches the %s" % ("index" if via_index else "null buffer"))
            else:
                ck.bad(rule, key, "%s tests validity with %s at an index that does not include lhs_start / rhs_start (and the receiver is not sliced by it): for a range that "
                       "does not begin at 0 it reads the validity of the wrong slots, so values under nulls are compared and valid values are skipped" % (fn["id"], cn.split("::")[-1]),
                       b.loc(bb))
