"""C10 — one total order (structural clauses).

1. In the ordering crates no comparison of a float-capable native value goes through PartialOrd /
   PartialEq (or a primitive float comparison): only ArrowNativeTypeOp::compare/is_eq/is_lt.. (IEEE
   totalOrder) may be used, so sort, rank, partition and the comparator cannot disagree on NaN / -0.
2. The float impls of ArrowNativeTypeOp really are totalOrder (total_cmp, to_bits equality).
3. Support sets agree over every DataType constructor: can_rank <=> rank dispatch, can_sort_to_indices
   => sort_to_indices dispatch, and anything sortable / rankable has a comparator."""
import re
from . import facts as factsmod, flow, dtm
from .mirlib import Body, callee

ORD_SCOPE = [("arrow_ord", None), ("arrow_cmp", None), ("arrow_row", None), ("arrow_arith", re.compile(r"^arrow_arith::aggregate::|^<arrow_arith::aggregate::"))]
CMP = re.compile(r"std::cmp::(PartialOrd|PartialEq)::(lt|le|gt|ge|partial_cmp|eq|ne)$")
FLOATY = re.compile(r"Native|^f(16|32|64)$|half::")
PARTIAL_EXEMPT = {
    "arrow_ord::comparison::in_list": "membership test `==` of the legacy in_list kernel (ArrowNumericType); not part of the ordering family and documented as value equality",
}


def run_partial(ck, F):
    ck.rule("C10.total-order-only", "in arrow_ord, arrow_cmp, arrow_row and arrow_arith::aggregate no value of a float-capable native type "
            "(f16/f32/f64, T::Native) is compared with PartialOrd/PartialEq or a primitive float comparison; exemptions listed", floor=1)
    n_calls = 0
    for cn, scope in ORD_SCOPE:
        for fn in F.crate(cn).fns:
            if "mir" not in fn or (scope and not scope.search(fn["id"])):
                continue
            b = Body(fn)
            root = fn.get("parent") if fn["kind"] == "Closure" else fn["id"]
            for bl in range(b.n):
                for s in b.stmts(bl):
                    if s[0] == "a" and s[2][0] == "bin" and s[2][1] in ("Lt", "Le", "Gt", "Ge", "Eq", "Ne") and re.match(r"^(f16|f32|f64|half::)", s[2][4]):
                        ck.bad("C10.total-order-only", "%s float-%s" % (root, s[2][1]), "primitive float comparison %s on %s: not IEEE totalOrder (NaN, -0.0)" % (s[2][1], s[2][4]), b.loc(bl))
            for bb, t in b.calls():
                n_calls += 1
                f = t.get("f") or {}
                if not CMP.search(f.get("path", "")):
                    continue
                st = f.get("self", "")
                if not (FLOATY.search(st) or re.fullmatch(r"&?[A-Z]\w{0,2}", st)):
                    continue
                # index-like generic parameters (offsets, keys used as indices) are not values
                if re.search(r"OffsetSize|Offset$", st):
                    continue
                key = "%s %s(%s)" % (root, f["path"].split("::")[-1], st)
                if root in PARTIAL_EXEMPT:
                    ck.ok("C10.total-order-only", key, "exempt: " + PARTIAL_EXEMPT[root])
                else:
                    ck.bad("C10.total-order-only", key, "%s compares %s values with %s: PartialOrd/PartialEq disagree with totalOrder on NaN and signed zero" % (fn["id"], st, f["path"]), b.loc(bb))
    ck.count("calls_scanned", n_calls)


def run_float_native(ck, F):
    ck.rule("C10.float-total-order", "the f16/f32/f64 impls of ArrowNativeTypeOp::compare / is_eq are IEEE totalOrder (total_cmp, to_bits equality)", floor=6)
    for ty in ("half::f16", "half::binary16::f16", "f32", "f64"):
        for meth, need in (("compare", re.compile(r"::total_cmp$")), ("is_eq", re.compile(r"::to_bits$"))):
            fid = "<%s as arrow_array::arithmetic::ArrowNativeTypeOp>::%s" % (ty, meth)
            fn = F.fn(fid, required=False)
            if fn is None:
                continue
            names = [callee(t) or "" for _, t in Body(fn).calls()]
            if any(need.search(n) for n in names) and not any(CMP.search(n) for n in names):
                ck.ok("C10.float-total-order", "%s::%s" % (ty, meth), "via %s" % [n.split("::")[-1] for n in names])
            else:
                ck.bad("C10.float-total-order", "%s::%s" % (ty, meth), "%s does not use %s (calls %s)" % (fid, need.pattern, names), "%s:%s" % (fn["file"], fn["line"]))


DT = "call:Array::data_type"


def run_support(ck, F):
    ck.rule("C10.support-agreement", "for every DataType constructor: can_rank(T) <=> rank() dispatches T to an implementation; can_sort_to_indices(T) => "
            "sort_to_indices() does; rank / sort support => make_comparator has an arm for (T, T)", floor=41 * 3)
    variants = dtm.enum_variants(F, "arrow_schema::datatype::DataType")
    cache = {}
    rank_b = Body(F.fn("arrow_ord::rank::rank"))
    sort_b = Body(F.fn("arrow_ord::sort::sort_to_indices"))
    cmp_b = Body(F.fn("arrow_cmp::make_comparator"))
    for name, d in variants:
        cr = dtm.eval_bool(F, "arrow_ord::rank::can_rank", d, cache=cache)
        cs = dtm.eval_bool(F, "arrow_ord::sort::can_sort_to_indices", d, cache=cache)
        r = dtm.supported_under(rank_b, {DT: d})
        s = dtm.supported_under(sort_b, {DT: d})
        c = dtm.supported_under(cmp_b, {DT: d})
        if r is None or s is None or c is None:
            ck.bad("C10.support-agreement", "%s:dispatch" % name, "a dispatch on array.data_type() was not found in rank/sort_to_indices/make_comparator (anchor moved)", None)
            continue
        # can_rank <=> rank
        if (cr == {True} and not r) or (cr == {False} and r):
            ck.bad("C10.support-agreement", "%s:can_rank" % name, "can_rank(%s) = %s but rank() %s it: sort of nested types and rank disagree" % (name, cr, "implements" if r else "rejects"), "arrow-ord/src/rank.rs")
        else:
            ck.ok("C10.support-agreement", "%s:can_rank" % name, "can_rank=%s rank=%s" % (sorted(map(str, cr)), r))
        if cs == {True} and not s:
            ck.bad("C10.support-agreement", "%s:can_sort" % name, "can_sort_to_indices(%s) is true but sort_to_indices rejects the type" % name, "arrow-ord/src/sort.rs")
        else:
            ck.ok("C10.support-agreement", "%s:can_sort" % name, "can_sort=%s sort=%s" % (sorted(map(str, cs)), s))
        if (r or s) and not c:
            ck.bad("C10.support-agreement", "%s:comparator" % name, "%s can be sorted/ranked but make_comparator has no arm for it: the components cannot agree" % name, "arrow-cmp/src/lib.rs")
        else:
            ck.ok("C10.support-agreement", "%s:comparator" % name, "rank=%s sort=%s comparator=%s" % (r, s, c))


def run_child_opts(ck, F):
    ck.rule("C10.child-opts", "every comparator built for a nested child (list, struct, map, dictionary, run-end, union values) receives child_opts(opts): the parent "
            "applies descending to the child's result, so the child must be built ascending with nulls_first pre-flipped", floor=8)
    from .mirlib import op_local
    c = F.crate("arrow_cmp")
    for fn in c.fns:
        if "mir" not in fn:
            continue
        root = fn.get("parent") if fn["kind"] == "Closure" else fn["id"]
        if flow.norm(root) == "arrow_cmp::make_comparator":
            continue
        b = Body(fn)
        for bb, t in b.calls():
            if flow.norm(callee(t) or "") != "arrow_cmp::make_comparator" or len(t["args"]) < 3:
                continue
            l = op_local(t["args"][2])
            ok = False
            if l is not None:
                _, calls = b.back_slice(l)
                ok = any(flow.norm(callee(c_) or "").endswith("::child_opts") for _, c_ in calls)
                if not ok and fn["kind"] == "Closure":
                    for pb, blk, loc in flow.closure_creations(F, fn):
                        if any(flow.norm(callee(c_) or "").endswith("::child_opts") for _, c_ in pb.calls()):
                            ok = True
            key = flow.norm(root)
            if ok:
                ck.ok("C10.child-opts", key, "child comparator built with child_opts(opts)")
            else:
                ck.bad("C10.child-opts", key, "%s builds the comparator of a nested child with the parent's options instead of child_opts(opts): descending / nulls_first are applied twice" % fn["id"], b.loc(bb))


def run(ck, tier):
    F = factsmod.Facts("ws")
    from . import influence as _infl
    _infl.run(ck, F, 'C10')
    from . import mustpass as _mp
    _mp.run(ck, F, 'C10')
    from . import accum as _acc2
    _acc2.run2(ck, F, 'C10')
    from . import relations as _rel
    _rel.run(ck, F, 'C10')
    from . import guards as _grd
    _grd.run(ck, F, 'C10')
    from . import accum as _acc
    _acc.run(ck, F, 'C10')
    run_child_opts(ck, F)
    run_partial(ck, F)
    run_float_native(ck, F)
    run_support(ck, F)
    ck.note("Decided: absence of partial-order comparisons on float-capable natives in the ordering crates, totalOrder float impls, agreement of the "
            "support predicates with the dispatch tables over all 41 DataType constructors. Not decided: that permutations and ranks are right.")
    return F.info
