"""C13 — two further structural clauses of the cast kernels.

`decimal-bound-beliefs`: the strict (`validate_decimalN_precision`, returns Err) and the safe (`is_validate_decimalN_precision`, returns bool -> NULL)
precision checks compare a value with the per-precision MIN / MAX tables.  Every such comparison states a belief about the boundary value itself
(+-(10^p - 1) is representable): `v > MAX` / `v <= MAX` and `v < MIN` / `v >= MIN` say "the bound is valid"; `>=` / `<` against MAX or `<=` / `>`
against MIN say the opposite.  Strict and safe mode, and all four widths, must hold the same belief, or safe casts null a value strict casts keep.

`narrowing-after-reduction`: in arrow-cast a narrowing integer `as` is applied to a value that was reduced first (a quotient, a remainder, a
difference of positions, a length), never to a raw kernel input: `(x / MICROSECONDS) as i32` is fine, `x as i32 / MICROSECONDS as i32` wraps."""
import re
from . import flow
from .mirlib import Body, callee, op_local, op_place, op_const

BOUND = re.compile(r"(MIN|MAX)_DECIMAL\d+_FOR_EACH_PRECISION$")
OK_OPS = {"MAX": ("Gt", "Le"), "MIN": ("Lt", "Ge")}
FLIP = {"Gt": "Lt", "Lt": "Gt", "Ge": "Le", "Le": "Ge"}


def _const_root_local(b, l, depth=0):
    ds = b.defs().get(l, [])
    if len(ds) != 1 or ds[0][0] != "s" or depth > 6:
        return None
    rv = ds[0][3]
    if rv[0] == "use":
        k = op_const(rv[1])
        if k is not None:
            return str(k[0] if isinstance(k, (list, tuple)) else k)
        p = op_place(rv[1])
        if p is not None:
            return _const_root_local(b, p[0], depth + 1)
    if rv[0] == "ref":
        return _const_root_local(b, rv[2][0], depth + 1)
    if rv[0] == "cast":
        p = op_place(rv[2])
        if p is not None:
            return _const_root_local(b, p[0], depth + 1)
    return None


def _const_root(b, op):
    k = op_const(op)
    if k is not None:
        return str(k[0] if isinstance(k, (list, tuple)) else k)
    l = op_local(op)
    return _const_root_local(b, l) if l is not None else None


def run_bounds(ck, F, rule="C13.decimal-bound-beliefs"):
    ck.rule(rule, "every comparison of a value with the per-precision MIN_/MAX_DECIMALn_FOR_EACH_PRECISION tables treats the bound itself as representable "
            "(`> MAX` / `<= MAX`, `< MIN` / `>= MIN`), in strict and in safe mode and for every width", floor=12)
    for cn in ("arrow_data", "arrow_array", "arrow_cast", "arrow_arith"):
        for fn in F.crate(cn).fns:
            if "mir" not in fn:
                continue
            b = Body(fn)
            sites = []
            for bl in range(b.n):
                for s in b.stmts(bl):
                    if s[0] == "a" and s[2][0] == "bin" and s[2][1] in FLIP:
                        sites.append((bl, s[2][1], s[2][2], s[2][3]))
                t = b.term(bl)
                if t["k"] == "call" and len(t["args"]) == 2:
                    m = re.search(r"PartialOrd(?:<[^>]*>)?>?::(gt|ge|lt|le)$", callee(t) or "")
                    if m:
                        sites.append((bl, m.group(1).capitalize(), t["args"][0], t["args"][1]))
            for bl, op, lo, ro in sites:
                lr, rr = _const_root(b, lo), _const_root(b, ro)
                lm = BOUND.search(lr or "")
                rm = BOUND.search(rr or "")
                if bool(lm) == bool(rm):
                    continue
                kind = (lm or rm).group(1)
                if lm:
                    op = FLIP[op]
                key = "%s %s %s" % (flow.norm(fn["id"]), op, (lm or rm).group(0))
                if op in OK_OPS[kind]:
                    ck.ok(rule, key, "bound is representable")
                else:
                    ck.bad(rule, key, "%s compares with %s using %s: the boundary value +-(10^p - 1) is treated as out of range here, while the sibling checks (strict / safe "
                           "mode, other widths) accept it" % (fn["id"], (lm or rm).group(0), {"Ge": ">=", "Lt": "<", "Le": "<=", "Gt": ">"}[op]), b.loc(bl))


_W = {"i8": 8, "u8": 8, "i16": 16, "u16": 16, "i32": 32, "u32": 32, "i64": 64, "u64": 64, "i128": 128, "u128": 128, "isize": 64, "usize": 64}
REDUCING_BIN = ("Div", "Rem", "Shr", "ShrUnchecked", "BitAnd", "Sub", "SubWithOverflow", "SubUnchecked")
REDUCING_CALL = re.compile(r"::(rem_euclid|div_euclid|min|clamp|len|as_usize|to_usize|count|leading_zeros|trailing_zeros)$")
NARROW_EXEMPT = {
    "arrow_cast::cast::run_array::cast_to_run_end_encoded": "index of a run start, later handed to take() which indexes with u32",
    "arrow_cast::cast::run_array::run_end_encoded_cast": "physical run index, bounded by the number of runs of an i16/i32/i64 run array",
}


def _raw_input(b, l, depth=0):
    """does `l` hold an unreduced input (a parameter, or a field / element / copy / widening of one)?"""
    if 1 <= l <= b.argc:
        return True
    ds = b.defs().get(l, [])
    if not ds or depth > 8:
        return False
    for d in ds:
        if d[0] == "call":
            if REDUCING_CALL.search(callee(d[3]) or ""):
                continue
            return False        # result of some other call: not a raw input of this kernel (the callee is responsible)
        rv = d[3]
        if rv[0] == "bin":
            continue            # any arithmetic result: reduced or at least computed (Add/Mul results are checked elsewhere by C12)
        if rv[0] in ("use", "cast"):
            o = rv[1] if rv[0] == "use" else rv[2]
            p = op_place(o)
            if p is None:
                continue
            if _raw_input(b, p[0], depth + 1):
                return True
    return False


def run_narrowing(ck, F, rule="C13.narrowing-after-reduction"):
    ck.rule(rule, "in arrow-cast a narrowing integer `as` is never applied directly to a kernel input (a closure / function parameter or a copy, field or element "
            "of one): the value is reduced first (quotient, remainder, difference, length)", floor=10)
    for fn in F.crate("arrow_cast").fns:
        if "mir" not in fn:
            continue
        b = Body(fn)
        root = flow.norm(fn["id"])
        while "::{closure" in root:
            root = root[:root.rindex("::{closure")]
        for bl in range(b.n):
            for s in b.stmts(bl):
                if not (s[0] == "a" and s[2][0] == "cast" and s[2][1] == "IntToInt"):
                    continue
                l = op_local(s[2][2])
                src = b.locals[l] if l is not None else None
                dst = s[2][3]
                if src not in _W or dst not in _W or _W[src] <= _W[dst]:
                    continue
                key = "%s %s->%s" % (flow.norm(fn["id"]), src, dst)
                if root in NARROW_EXEMPT:
                    ck.ok(rule, key, "audited: " + NARROW_EXEMPT[root])
                elif _raw_input(b, l):
                    ck.bad(rule, key, "%s narrows a kernel input with `as` (%s -> %s) before reducing it: values outside the target range wrap silently, in safe and in "
                           "strict mode" % (fn["id"], src, dst), b.loc(bl))
                else:
                    ck.ok(rule, key, "operand is a reduced value")
