"""C08 — the Avro container reader's pull loop cannot spin without progress.

`Reader::read` loops "while the batch is not full": it refills the block buffer and hands it to a decoder that reports how many bytes it
consumed.  A decoder call that can legitimately report zero progress (no capacity left, or the block's declared record count is exhausted)
must be followed by a test of the reported count against zero on which an exit from the loop depends; otherwise a block whose record count is
smaller than the records its data holds keeps `block_cursor < block_data.len()` true forever (one corrupted byte makes the reader hang)."""
import re
from . import flow
from .mirlib import Body, callee, op_const, op_local, op_place, rvalue_locals

SITES = [("avro-ocf-reader", "arrow_avro::reader::Reader::<R>::read", re.compile(r"::(decode|decode_block)$"))]


def _in_cycle(b, x):
    return any(x in b.reachable(s) for s in b.succ(x))


def _zero_test_on(b, seeds):
    """is a value data-derived from `seeds` (copies, tuple fields, `?` payloads) compared with the constant 0 in a comparison whose result is branched on?"""
    t = set(seeds)
    ch = True
    while ch:
        ch = False
        for bl in range(b.n):
            for s in b.stmts(bl):
                if s[0] == "a" and s[2][0] in ("use", "cast") and s[1][0] not in t:
                    p = op_place(s[2][1] if s[2][0] == "use" else s[2][2])
                    if p is not None and p[0] in t:
                        t.add(s[1][0])
                        ch = True
            term = b.term(bl)
            if term["k"] == "call" and re.search(r"Try>::branch$", callee(term) or "") and term["args"]:
                l = op_local(term["args"][0])
                if l in t and term["dest"][0] not in t:
                    t.add(term["dest"][0])
                    ch = True
    for bl in range(b.n):
        for s in b.stmts(bl):
            if s[0] == "a" and s[2][0] == "bin" and s[2][1] in ("Eq", "Ne", "Gt", "Lt", "Ge", "Le"):
                ls = [op_local(s[2][2]), op_local(s[2][3])]
                ks = [op_const(s[2][2]), op_const(s[2][3])]
                if any(l in t for l in ls if l is not None) and any(k is not None and re.match(r"^0_", str(k[0] if isinstance(k, (list, tuple)) else k)) for k in ks):
                    return True
    return False


def run(ck, F, rule="C08.pull-loop-progress"):
    ck.rule(rule, "in the Avro container reader's pull loop every decoder call that reports a consumed-byte count has that count tested against zero (a no-progress "
            "guard): a call that can return `(0, 0)` without such a test lets one corrupted block-count byte hang the reader", floor=2)
    for iid, fid, rx in SITES:
        fn = F.resolve(fid)
        if fn is None:
            ck.missing_anchor(fid, rule)
            continue
        b = Body(fn)
        n = 0
        for bb, t in b.calls():
            cn = callee(t) or ""
            if not rx.search(cn) or not _in_cycle(b, bb) or "usize" not in t.get("rt", ""):
                continue
            n += 1
            key = "%s:%s" % (iid, cn.split("::")[-1])
            if _zero_test_on(b, {t["dest"][0]}):
                ck.ok(rule, key, "consumed count is tested against zero")
            else:
                ck.bad(rule, key, "%s calls %s in its pull loop and never tests the reported progress against zero: when the block's declared record count is exhausted while "
                       "block data remains, the call returns (0, 0) and the loop spins forever" % (fid, cn), b.loc(bb))
        if n < 2:
            ck.bad(rule, iid, "expected the block decoder call and the record decoder call in the pull loop of %s, found %d (anchor moved)" % (fid, n), "%s:%s" % (fn["file"], fn["line"]))


# ---------------------------------------------------------------------------------------------------------
# Footer blocks of an IPC file are untrusted: Block::offset / metaDataLength / bodyLength are signed integers read from the file.
BLOCK_ACCESSOR = re.compile(r"Block::(bodyLength|metaDataLength|offset)$")
PANICKY = re.compile(r"(Option|Result)(::<[^>]*>)?::(unwrap|expect)$")


def run_block_fields(ck, F, rule="C08.footer-block-fields-checked"):
    ck.rule(rule, "in the IPC file reader no value derived from a footer Block's offset / metaDataLength / bodyLength (signed integers read from the file) is "
            "unwrapped: the conversions to usize and their sum are fallible and must turn into an error, not a panic", floor=2)
    for fn in F.crate("arrow_ipc").fns:
        if "mir" not in fn or not fn["file"].endswith("reader.rs"):
            continue
        b = Body(fn)
        seeds = {t["dest"][0] for _, t in b.calls() if BLOCK_ACCESSOR.search(callee(t) or "")}
        if not seeds:
            continue
        tainted = b.taint(seeds, through_calls=True)
        bad = None
        for bb, t in b.calls():
            if PANICKY.search(flow.norm(callee(t) or "")) and t["args"] and op_local(t["args"][0]) in tainted:
                bad = bad or bb
        key = flow.norm(fn["id"])
        if bad is not None:
            ck.bad(rule, key, "%s unwraps a value computed from a footer Block's length / offset fields: a negative or overflowing value in the file makes the reader "
                   "panic" % fn["id"], b.loc(bad))
        else:
            ck.ok(rule, key, "block fields are converted fallibly or only cast")


# ---------------------------------------------------------------------------------------------------------
# `slice.len() - K` on a byte slice that is a parameter (input handed in by the caller) underflows for short input.
DECODER_CRATES2 = ["arrow_avro", "arrow_ipc", "parquet", "parquet_variant", "arrow_csv", "arrow_json"]


def _len_receiver(b, l, depth=0):
    ds = b.defs().get(l, [])
    if len(ds) != 1 or depth > 4:
        return None
    d = ds[0]
    if d[0] == "call" and re.search(r"::len$", callee(d[3]) or "") and d[3]["args"]:
        return op_local(d[3]["args"][0])
    if d[0] == "s" and d[3][0] in ("use", "cast"):
        o = d[3][1] if d[3][0] == "use" else d[3][2]
        l2 = op_local(o)
        if l2 is not None:
            return _len_receiver(b, l2, depth + 1)
    return None


def _param_byte_slice(b, l, depth=0):
    if 1 <= l <= b.argc:
        return bool(re.match(r"^&(mut )?\[u8\]$", b.locals[l]))
    if depth > 5:
        return False
    for d in b.defs().get(l, []):
        if d[0] == "s" and d[3][0] == "ref" and all(e == "*" for e in d[3][2][1]):
            return _param_byte_slice(b, d[3][2][0], depth + 1)
        if d[0] == "s" and d[3][0] == "use":
            p = op_place(d[3][1])
            if p and all(e == "*" for e in p[1]):
                return _param_byte_slice(b, p[0], depth + 1)
    return False


def run_len_minus(ck, F, rule="C08.slice-len-minus-const-guarded"):
    ck.rule(rule, "in the decoders, `input.len() - K` on a `&[u8]` parameter is dominated by a comparison of that length (or by is_empty / split_last / checked_sub / "
            "get): for input shorter than K the subtraction underflows and the reader panics", floor=3)
    for cn in DECODER_CRATES2:
        for fn in F.crate(cn).fns:
            if "mir" not in fn:
                continue
            b = Body(fn)
            for bl in range(b.n):
                for s in b.stmts(bl):
                    if not (s[0] == "a" and s[2][0] == "bin" and s[2][1] in ("Sub", "SubWithOverflow", "SubUnchecked")):
                        continue
                    k, l = op_const(s[2][3]), op_local(s[2][2])
                    if k is None or l is None:
                        continue
                    rl = _len_receiver(b, l)
                    if rl is None or not _param_byte_slice(b, rl):
                        continue
                    guarded = False
                    for x in b.dominators().get(bl, set()):
                        for s2 in b.stmts(x):
                            if s2[0] == "a" and s2[2][0] == "bin" and s2[2][1] in ("Lt", "Le", "Gt", "Ge", "Eq", "Ne"):
                                for o in (s2[2][2], s2[2][3]):
                                    l2 = op_local(o)
                                    if l2 is not None and _len_receiver(b, l2) is not None:
                                        guarded = True
                        t = b.term(x)
                        if t["k"] == "call" and re.search(r"::(is_empty|split_last|strip_suffix|checked_sub|get|split_at_checked)$", callee(t) or ""):
                            guarded = True
                    key = "%s - %s" % (flow.norm(fn["id"]), str(k[0] if isinstance(k, (list, tuple)) else k))
                    if guarded:
                        ck.ok(rule, key, "length is compared first")
                    else:
                        ck.bad(rule, key, "%s subtracts %s from the length of its `&[u8]` input without comparing the length first: shorter input underflows (debug: panic; "
                               "release: wraps and the following slice index panics)" % (fn["id"], str(k[0] if isinstance(k, (list, tuple)) else k)), b.loc(bl))


# ---------------------------------------------------------------------------------------------------------
def run_variant_boundaries(ck, F, rule="C08.variant-dictionary-offsets-on-boundaries"):
    ck.rule(rule, "VariantMetadata::with_full_validation validates the dictionary's value buffer as one UTF-8 string; both arms of the `is_sorted` dispatch must then "
            "also establish that every offset is a character boundary (checked `str::get`, `is_char_boundary`), or an entry that starts inside a character is "
            "'validated' and the panic-free accessors panic", floor=2)
    from . import arms
    fid = "parquet_variant::variant::metadata::VariantMetadata::<'m>::with_full_validation"
    fn = F.resolve(fid)
    if fn is None:
        ck.missing_anchor(fid, rule)
        return
    b = Body(fn)
    crate = F.crate("parquet_variant")
    closures = {c["id"]: c for c in crate.closures_of.get(fn["id"], [])}
    EVID = re.compile(r"str::<impl str>::get$|::is_char_boundary$|str::get$|core::str::<impl str>::get$")
    found = False
    for sb in range(b.n):
        t = b.term(sb)
        if t["k"] != "switch":
            continue
        locs, _ = b.back_slice(op_local(t["d"])) if op_local(t["d"]) is not None else (set(), [])
        reads_sorted = False
        for x in locs:
            for d in b.defs().get(x, []):
                if d[0] == "s":
                    for o in ([d[3][1]] if d[3][0] == "use" else []):
                        p = op_place(o)
                        if p and any(isinstance(e, list) and e[0] == "f" and e[2] == "is_sorted" for e in p[1]):
                            reads_sorted = True
        if not reads_sorted:
            continue
        found = True
        regions = arms.arm_regions(b, sb)
        for i, (tg, blocks) in enumerate(sorted(regions.items())):
            ev = False
            for bl in blocks:
                tt = b.term(bl)
                if tt["k"] == "call":
                    if EVID.search(callee(tt) or ""):
                        ev = True
                    for a in tt["args"]:      # closures handed to iterator adaptors
                        l = op_local(a)
                        for dd in b.defs().get(l, []) if l is not None else []:
                            if dd[0] == "s" and dd[3][0] == "agg" and dd[3][1][0] == "closure" and dd[3][1][1] in closures:
                                if any(EVID.search(callee(ct) or "") for _, ct in Body(closures[dd[3][1][1]]).calls()):
                                    ev = True
            key = "is_sorted arm #%d" % i
            if not blocks:
                continue
            if ev:
                ck.ok(rule, key, "offsets are checked against character boundaries")
            else:
                ck.bad(rule, key, "one arm of the is_sorted dispatch in with_full_validation marks the metadata validated without checking that the dictionary offsets are "
                       "character boundaries of the (whole-buffer validated) values", b.loc(tg))
    if not found:
        ck.bad(rule, "dispatch", "no dispatch on header.is_sorted found in with_full_validation (anchor moved)", "%s:%s" % (fn["file"], fn["line"]))


# ---------------------------------------------------------------------------------------------------------
def run_variant_children(ck, F, rule="C08.variant-full-validation-recurses"):
    ck.rule(rule, "inside the with_full_validation methods of the Variant containers (list, object) nested values are built with the fully validating constructors: "
            "a `*_shallow_validation` constructor there marks a container validated whose grandchildren were never looked at", floor=2)
    crate = F.crate("parquet_variant")
    for fn in crate.fns:
        if "mir" not in fn or fn["kind"] == "Closure" or not re.search(r"::with_full_validation$", fn["id"]):
            continue
        fns, i = [fn], 0
        while i < len(fns):
            fns += [c for c in crate.closures_of.get(fns[i]["id"], []) if "mir" in c]
            i += 1
        shallow = None
        for f in fns:
            b = Body(f)
            for bb, t in b.calls():
                if re.search(r"shallow_validation$", callee(t) or ""):
                    shallow = shallow or (b.loc(bb), callee(t))
        key = flow.norm(fn["id"])
        if shallow:
            ck.bad(rule, key, "%s builds a nested value with %s: the nested container is only shallowly checked while this one is marked fully validated, and the accessors "
                   "documented as panic-free then panic on corrupted grandchildren" % (fn["id"], shallow[1]), shallow[0])
        else:
            ck.ok(rule, key, "no shallow constructor inside full validation")
