"""C12 — arithmetic is exact or reports overflow (routing clauses).

1. native routing: every integer-like `impl ArrowNativeTypeOp` routes X_checked to checked_X (div/mod
   behind an is_zero test) and X_wrapping to wrapping_X;
2. no wrapping primitive in a checked context: in arrow_arith::numeric / aggregate / arithmetic, a call
   to ArrowNativeTypeOp::*_wrapping (or an inherent wrapping_*) that is reachable for a checked `Op`
   (Add, Sub, Mul, Div, Rem) or sits in a fallible/"checked" helper is a violation unless listed;
3. fallible op on valid slots only (FOV): every invocation of a fallible user closure in the arity
   kernels runs under try_for_each_valid_idx or behind a null test."""
import re
from . import facts as factsmod, flow, dtm, disc, pairs
from .mirlib import Body, callee, callee_names, op_local

FLOATS = {"f32", "f64", "half::f16", "half::binary16::f16"}
NATIVE_TRAIT = "arrow_array::arithmetic::ArrowNativeTypeOp"
OPS = {"add": "add", "sub": "sub", "mul": "mul", "div": "div", "mod": "rem", "neg": "neg", "pow": "pow"}
CHECKED_OPS = {"Add", "Sub", "Mul", "Div", "Rem"}

# (root fn, wrapping method) -> reason.   "*" matches any method.
WRAP_EXEMPT = {
    ("arrow_arith::numeric::float_op", "*"): "IEEE-754: floats do not overflow; only reached with Float16/32/64 (instance float-op-callers)",
    ("arrow_arith::numeric::integer_op", "mod_wrapping"): "Rem: guarded by an explicit is_zero test; MIN % -1 = 0 is the exact result (instance integer-rem-zero-test)",
    ("arrow_arith::numeric::decimal_op", "neg_wrapping"): "negates the i8 scale difference inside the Ordering::Less arm, where it is strictly negative and > i8::MIN",
    ("arrow_arith::arithmetic::multiply_fixed_point", "mul_wrapping"): "documented non-checked variant ('This doesn't detect overflow'); multiply_fixed_point_checked is the checked one",
    ("arrow_arith::arithmetic::get_fixed_point_info", "pow_wrapping"): "10^(product_scale - required_scale) in i256 with scale difference <= 76: cannot wrap",
}


def last(n):
    return n.split("::")[-1]


def run_native(ck, F):
    ck.rule("C12.native-routing", "each integer-like impl of ArrowNativeTypeOp routes X_checked to the checked primitive (never a wrapping one; "
            "div/mod behind an is_zero test returning DivideByZero) and X_wrapping to the wrapping primitive", floor=12 * 13)
    c = F.crate("arrow_array")
    for im in c.impls:
        if im.get("trait") != NATIVE_TRAIT or im["self_ty"] in FLOATS:
            continue
        ty = im["self_ty"]
        for item in im["items"]:
            m = re.match(r"^(add|sub|mul|div|mod|neg|pow)_(checked|wrapping)$", last(item))
            if not m:
                continue
            op, mode = m.groups()
            fn = F.fn(item)
            b = Body(fn)
            names = [last(callee(t) or "") for _, t in b.calls()]
            key = "%s::%s" % (ty, last(item))
            prim = OPS[op]
            if mode == "checked":
                has_checked = any(n == "checked_" + prim for n in names)
                has_wrap = any(n.startswith("wrapping_") or n.endswith("_wrapping") for n in names)
                ok = has_checked and not has_wrap
                msg = ""
                if op in ("div", "mod"):
                    zb = flow.call_blocks(b, re.compile(r"::is_zero$"))
                    cb = [bb for bb, t in b.calls() if last(callee(t) or "") == "checked_" + prim]
                    guarded = zb and all(b.must_pass(zb, x) for x in cb)
                    ok = ok and bool(guarded)
                    if not guarded:
                        msg = " (no is_zero test dominating the division)"
                if ok:
                    ck.ok("C12.native-routing", key, "calls checked_%s%s" % (prim, ", behind is_zero" if op in ("div", "mod") else ""))
                else:
                    ck.bad("C12.native-routing", key, "%s does not route to checked_%s only: calls %s%s" % (item, prim, names, msg), "%s:%s" % (fn["file"], fn["line"]))
            else:
                if any(n == "wrapping_" + prim for n in names):
                    ck.ok("C12.native-routing", key, "calls wrapping_%s" % prim)
                else:
                    ck.bad("C12.native-routing", key, "%s does not call wrapping_%s: calls %s" % (item, prim, names), "%s:%s" % (fn["file"], fn["line"]))


def creation_chain_to_root(F, fn, depth=0):
    """for a closure: list of (root Body, block) pairs where the outermost enclosing closure is created in the root fn"""
    if fn["kind"] != "Closure":
        return None
    out = []
    for pb, blk, loc in flow.closure_creations(F, fn):
        if pb.fn["kind"] == "Closure":
            if depth < 5:
                out += creation_chain_to_root(F, pb.fn, depth + 1) or []
        else:
            out.append((pb, blk))
    return out


def op_param(body):
    for i in range(1, body.argc + 1):
        if body.locals[i] == "arrow_arith::numeric::Op":
            return i
    return None


def run_wrapping(ck, F):
    ck.rule("C12.no-wrapping-in-checked", "no *_wrapping arithmetic primitive is reachable for a checked Op (Add, Sub, Mul, Div, Rem) in the numeric "
            "kernels, nor inside a fallible (Result-returning) or *_checked helper of arrow_arith; float types and listed sites exempt", floor=40)
    c = F.crate("arrow_arith")
    variants = dtm.enum_variants(F, "arrow_arith::numeric::Op")
    for fn in c.fns:
        if "mir" not in fn:
            continue
        b = Body(fn)
        for bb, t in b.calls():
            f = t.get("f") or {}
            n = callee(t) or ""
            meth = last(n)
            is_trait_wrap = "ArrowNativeTypeOp" in (f.get("path", "") + f.get("trait", "")) and meth.endswith("_wrapping")
            is_inherent_wrap = re.search(r"core::num::<impl [iu]\d+>::wrapping_", n) is not None
            if not (is_trait_wrap or is_inherent_wrap):
                continue
            root_id = fn.get("parent") if fn["kind"] == "Closure" else fn["id"]
            key = "%s -> %s" % (fn["id"], meth)
            selfty = f.get("self", "")
            if selfty in FLOATS:
                ck.ok("C12.no-wrapping-in-checked", key, "float self type: IEEE arithmetic")
                continue
            # context
            if fn["kind"] == "Closure":
                sites = creation_chain_to_root(F, fn) or []
            else:
                sites = [(b, bb)]
            ctx = None
            detail = ""
            root_fn = F.fn(root_id)
            rb = Body(root_fn)
            op = op_param(rb)
            if op is not None and sites:
                reach_ops = set()
                for (pb, blk) in sites:
                    reach_ops |= set(dtm.variants_reaching(pb, op, variants, blk))
                bad_ops = sorted(reach_ops & CHECKED_OPS)
                ctx = "checked" if bad_ops else "wrapping"
                detail = "reachable for Op in %s" % sorted(reach_ops)
            elif "wrapping" in last(root_id):
                ctx, detail = "wrapping", "root fn is a *_wrapping kernel"
            elif "checked" in last(root_id) or rb.locals[0].startswith("std::result::Result<"):
                ctx, detail = "checked", "root fn %s is fallible (%s)" % (last(root_id), rb.locals[0][:40])
            else:
                ctx, detail = "neutral", "root fn returns a plain value (accumulator / rounding helper)"
            if ctx != "checked":
                ck.ok("C12.no-wrapping-in-checked", key, "%s: %s" % (ctx, detail))
                continue
            ex = WRAP_EXEMPT.get((root_id, meth)) or WRAP_EXEMPT.get((root_id, "*"))
            if not ex:
                # a private helper (e.g. a block extracted from an exempt site): it inherits an exemption that ALL its callers have
                callers = set()
                for g in c.fns:
                    if "mir" not in g:
                        continue
                    for _, ct in Body(g).calls():
                        if flow.norm(callee(ct) or "") == flow.norm(root_id):
                            callers.add(g.get("parent") if g["kind"] == "Closure" else g["id"])
                exs = [WRAP_EXEMPT.get((cid, meth)) or WRAP_EXEMPT.get((cid, "*")) for cid in callers]
                if callers and all(exs):
                    ex = "called only from exempt site(s) %s: %s" % (sorted(last(x) for x in callers), exs[0])
            if ex:
                ck.ok("C12.no-wrapping-in-checked", key, "exempt: %s [%s]" % (ex, detail))
            else:
                ck.bad("C12.no-wrapping-in-checked", "%s -> %s" % (root_id, meth),
                       "%s calls %s in a checked context (%s): an overflow wraps silently instead of raising an error" % (fn["id"], n, detail), b.loc(bb))
    # side conditions of the exemptions
    ck.rule("C12.exemption-conditions", "side conditions that make the wrapping exemptions sound", floor=2)
    # (a) float_op only instantiated with float types
    bad = []
    cnt = 0
    for fn in c.fns:
        if "mir" not in fn:
            continue
        for bb, t in Body(fn).calls():
            if flow.norm(callee(t) or "") == "arrow_arith::numeric::float_op":
                cnt += 1
                ga = (t["f"].get("ga") or ["?"])[0]
                if not re.search(r"types::Float(16|32|64)Type$", ga):
                    bad.append(ga)
    if cnt and not bad:
        ck.ok("C12.exemption-conditions", "float-op-callers", "%d call sites, all with Float16/32/64Type" % cnt)
    else:
        ck.bad("C12.exemption-conditions", "float-op-callers", "float_op instantiated with non-float type(s) %s (or not called at all: %d)" % (bad, cnt), None)
    # (b) integer_op Rem closures: mod_wrapping dominated by is_zero test
    okc = badc = 0
    for fn in c.closures_of.get("arrow_arith::numeric::integer_op", []):
        b = Body(fn)
        mw = [bb for bb, t in b.calls() if last(callee(t) or "") == "mod_wrapping"]
        if not mw:
            continue
        zb = [bb for bb, t in b.calls() if last(callee(t) or "") == "is_zero"]
        if zb and all(b.must_pass(zb, x) for x in mw):
            okc += 1
        else:
            badc += 1
    if okc and not badc:
        ck.ok("C12.exemption-conditions", "integer-rem-zero-test", "%d Rem closures test is_zero before mod_wrapping" % okc)
    else:
        ck.bad("C12.exemption-conditions", "integer-rem-zero-test", "integer Rem computes mod_wrapping without a dominating is_zero test (%d ok, %d bad)" % (okc, badc), None)


NULL_TEST_CALLS = re.compile(r"::(is_nullable|null_count|is_none|is_some|logical_null_count|logical_nulls|nulls|union)$")
VALID_IDX = re.compile(r"try_for_each_valid_idx$")
FOV_FILES = ("arrow-arith/src/arity.rs", "arrow-array/src/array/primitive_array.rs")


def _null_switch(body, sb):
    calls, dtys = flow.switch_discr_sources(body, sb)
    if any(NULL_TEST_CALLS.search(flow.norm(callee(c) or "")) for c in calls):
        return True
    if any("NullBuffer" in d for d in dtys):
        return True
    return False


def run_fov(ck, F):
    ck.rule("C12.fallible-on-valid-only", "every invocation of a fallible user closure (Fn -> Result/Option) in the unary/binary kernels happens either "
            "inside the closure given to try_for_each_valid_idx, or at a point that is control dependent on a null test (no nulls present)", floor=7)
    for cn in ("arrow_arith", "arrow_array"):
        c = F.crate(cn)
        for fn in c.fns:
            if "mir" not in fn or not fn["file"].endswith(FOV_FILES):
                continue
            b = Body(fn)
            for bb, t in b.calls():
                f = t.get("f")
                if not (f and f.get("trait", "").startswith("std::ops::Fn") and len(f.get("self", "xx")) <= 2
                        and (t["rt"].startswith("std::result::Result") or t["rt"].startswith("std::option::Option"))):
                    continue
                key = "%s@op-call" % fn["id"]
                if fn["kind"] == "Closure":
                    verdicts = []
                    for pb, blk, loc in flow.closure_creations(F, fn):
                        for (cb, ct, ai) in flow.value_flows_to_calls(pb, loc):
                            cn_ = callee(ct) or ""
                            if VALID_IDX.search(flow.norm(cn_)):
                                verdicts.append(("ok", "passed to try_for_each_valid_idx"))
                            elif flow.control_dependent_on(pb, cb, _null_switch):
                                verdicts.append(("ok", "passed to %s under a null test" % disc.short(cn_)))
                            else:
                                verdicts.append(("bad", "passed to %s at %s with no null test" % (disc.short(cn_), pb.loc(cb))))
                    if verdicts and all(v[0] == "ok" for v in verdicts):
                        ck.ok("C12.fallible-on-valid-only", key, "; ".join(sorted(set(v[1] for v in verdicts))))
                    else:
                        ck.bad("C12.fallible-on-valid-only", key, "fallible op may run on null slots: %s" % ([v[1] for v in verdicts if v[0] == "bad"] or "closure never passed to a valid-index iterator"), b.loc(bb))
                else:
                    # direct loop in a helper: every call site of the helper must be behind a null test
                    sites = []
                    for c2 in F.crates(["arrow_arith", "arrow_array"]):
                        for g in c2.fns:
                            if "mir" not in g:
                                continue
                            gb = Body(g)
                            for gbb, gt in gb.calls():
                                if flow.norm(callee(gt) or "") == flow.norm(fn["id"]):
                                    sites.append((gb, gbb))
                    badsites = [gb.loc(gbb) for gb, gbb in sites if not flow.control_dependent_on(gb, gbb, _null_switch)]
                    if sites and not badsites:
                        ck.ok("C12.fallible-on-valid-only", key, "helper without null handling; all %d call sites are behind a null test" % len(sites))
                    else:
                        ck.bad("C12.fallible-on-valid-only", key, "%s applies the fallible op to every slot and is called without a null test at %s" % (fn["id"], badsites or "no call site found"), b.loc(bb))


def run(ck, tier):
    F = factsmod.Facts("ws")
    from . import influence as _infl
    _infl.run(ck, F, 'C12')
    from . import mustpass as _mp
    _mp.run(ck, F, 'C12')
    from . import accum as _acc2
    _acc2.run2(ck, F, 'C12')
    from . import relations as _rel
    _rel.run(ck, F, 'C12')
    from . import guards as _grd
    _grd.run(ck, F, 'C12')
    from . import c12x
    c12x.run(ck, F)
    run_native(ck, F)
    run_wrapping(ck, F)
    run_fov(ck, F)
    pairs.check(ck, F, "C12.buffer-offset-pair", ["arrow_arith"], 8)
    pairs.check_cross(ck, F, "C12.validity-offset-slots", ["arrow_arith", "arrow_array"], 2)
    from . import kleene
    kleene.check(ck, F, "C12.kleene-truth-table", [("arrow_arith::boolean::and_kleene", "and"), ("arrow_arith::boolean::or_kleene", "or")], 8)
    ck.note("Decided: routing of checked/wrapping primitives for 12 native types x 14 methods, absence of wrapping primitives in checked "
            "contexts of arrow_arith, fallible closures applied to valid slots only. Not decided: exactness of i256/decimal formulas, Kleene logic.")
    return F.info
