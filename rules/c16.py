"""C16 — shared buffers are immutable and released exactly once (structural clauses).

Rules: no safe mutable view (impl facts + compile-fail witnesses); const->mut pointer casts only at the
audited sites; in-place conversion goes through Arc uniqueness; FFI export/release pairing, release
clears the callback, from_raw moves out with ptr::replace; mem::forget never strands an owning field
(checked with the `pool` feature compiled in)."""
import re
from . import facts as factsmod, api, flow, disc, pairs
from .mirlib import Body, callee, callee_names, op_local, op_place, operand_locals, rvalue_operands, rvalue_locals

SHARED_TYPES = ["arrow_buffer::buffer::immutable::Buffer", "arrow_buffer::buffer::scalar::ScalarBuffer",
                "arrow_buffer::buffer::offset::OffsetBuffer", "arrow_buffer::buffer::boolean::BooleanBuffer",
                "arrow_buffer::buffer::null::NullBuffer", "arrow_buffer::buffer::run::RunEndBuffer", "arrow_buffer::bytes::Bytes"]
MUT_TRAITS = {"std::ops::DerefMut", "std::convert::AsMut", "std::borrow::BorrowMut", "std::ops::IndexMut"}
CORE = ["arrow_buffer", "arrow_data", "arrow_array", "arrow_schema"]

CONST_CAST_OK = {
    "<arrow_buffer::bytes::Bytes as std::convert::From<bytes::Bytes>>::from": "pointer is only stored in NonNull; Deallocation::Custom keeps the bytes::Bytes owner; never written",
    "arrow_array::ffi::create_buffer": "NonNull for Buffer::from_custom_allocation (read-only view of foreign memory)",
    "arrow_schema::ffi::release_schema": "CString::from_raw reclaim of strings produced by CString::into_raw in the export path",
}

UNIQUE = [
    # (instance, fn id, uniqueness call required before a successful conversion)
    ("buffer-into_mutable", "arrow_buffer::buffer::immutable::Buffer::into_mutable", re.compile(r"Arc::<T, A>::(try_unwrap|into_inner)$")),
    ("buffer-into_vec", "arrow_buffer::buffer::immutable::Buffer::into_vec", re.compile(r"Arc::<T, A>::(try_unwrap|into_inner)$")),
    ("buffer-shrink_to_fit", "arrow_buffer::buffer::immutable::Buffer::shrink_to_fit", re.compile(r"Arc::<T, A>::get_mut$")),
]

# in-place kernels: must obtain their mutable storage through one of the uniqueness-checked conversions
INPLACE = [
    ("primitive-unary_mut", "arrow_array::array::primitive_array::PrimitiveArray::<T>::unary_mut", ["into_builder"]),
    ("primitive-try_unary_mut", "arrow_array::array::primitive_array::PrimitiveArray::<T>::try_unary_mut", ["into_builder"]),
    ("primitive-into_builder", "arrow_array::array::primitive_array::PrimitiveArray::<T>::into_builder", ["into_mutable"]),
    ("bytearray-into_builder", "arrow_array::array::byte_array::GenericByteArray::<T>::into_builder", ["into_mutable"]),
    ("boolean-bitop-assign", "arrow_buffer::buffer::boolean::BooleanBuffer::bitwise_bin_op_assign", ["into_mutable"]),
    ("arith-binary_mut", "arrow_arith::arity::binary_mut", ["into_builder"]),
    ("arith-try_binary_mut", "arrow_arith::arity::try_binary_mut", ["into_builder"]),
]

FFI = [
    # (instance, crate, export fns, release fn, from_raw fn, struct path)
    ("ffi-array", ["arrow_data::ffi::FFI_ArrowArray::new"], "arrow_data::ffi::release_array", "arrow_data::ffi::FFI_ArrowArray::from_raw"),
    ("ffi-schema", ["arrow_schema::ffi::FFI_ArrowSchema::try_new", "arrow_schema::ffi::FFI_ArrowSchema::with_name",
                    "arrow_schema::ffi::FFI_ArrowSchema::with_metadata"], "arrow_schema::ffi::release_schema", "arrow_schema::ffi::FFI_ArrowSchema::from_raw"),
    ("ffi-stream", ["arrow_array::ffi_stream::FFI_ArrowArrayStream::new"], "arrow_array::ffi_stream::release_stream",
     "arrow_array::ffi_stream::FFI_ArrowArrayStream::from_raw"),
]

FORGET_EXEMPT = {
    ("arrow_buffer::buffer::immutable::Buffer::into_vec::{closure#0}", "deallocation"):
        "the enclosing into_vec returns Err(self) unless deallocation is Deallocation::Standard(layout) and hands that layout to Vec::from_raw_parts",
    ("arrow_buffer::buffer::mutable::MutableBuffer::from_bytes", "deallocation"):
        "matched first: only Deallocation::Standard(layout) (no owner) reaches the forget; the layout is copied into the MutableBuffer",
}


def pointee(ty):
    m = re.match(r"\*(?:mut|const) (.*)$", ty)
    return m.group(1) if m else ty


def with_closures(F, fid):
    fn = F.fn(fid)
    out = [fn]
    cname = fid.lstrip("<").split("::", 1)[0]
    for c in F.crates([cname]) if cname in F.info["files"] else []:
        for cl in c.fns:
            if cl["kind"] == "Closure" and cl.get("parent") == fid and "mir" in cl:
                out.append(cl)
    return out


def raw_calls(fns, pat):
    out = []
    for fn in fns:
        b = Body(fn)
        for bb, t in b.calls():
            n = callee(t) or ""
            if pat.search(n):
                out.append((b, bb, t, n))
        # function items passed as values, e.g. `.map(Box::into_raw)`
        for bl in range(b.n):
            t = b.term(bl)
            if t["k"] == "call":
                for a, aty in zip(t["args"], t.get("aty", [])):
                    if a[0] == "fn" and pat.search(a[1].get("res") or a[1]["path"]):
                        out.append((b, bl, {"rt": None, "fnval": a[1], "line": t["line"], "args": [], "aty": []}, a[1]["path"]))
    return out


def run_ffi(ck, F):
    ck.rule("C16.ffi-pair", "every heap object handed out with Box::into_raw / CString::into_raw by an FFI export function is reclaimed by "
            "Box::from_raw / CString::from_raw of the same pointee type in the matching release callback", floor=3)
    ck.rule("C16.ffi-release-clears", "the release callback stores None into `release` on every path that reclaimed the private data (no double release)", floor=3)
    ck.rule("C16.ffi-moveout", "FFI_*::from_raw moves the struct out with ptr::replace(.., empty()) so the source is left released", floor=3)
    INTO = re.compile(r"(Box::<.*>::into_raw|CString::into_raw|boxed::Box::<T.*>::into_raw)$")
    FROM = re.compile(r"(Box::<.*>::from_raw|CString::from_raw)$")
    for iid, exports, release, fromraw in FFI:
        try:
            exp_fns = []
            for e in exports:
                exp_fns += with_closures(F, e)
            rel_fns = with_closures(F, release)
            fr = F.fn(fromraw)
        except factsmod.MissingAnchor as e:
            ck.missing_anchor(str(e), "C16.ffi-pair")
            continue
        exported = set()
        for b, bb, t, n in raw_calls(exp_fns, INTO):
            if "CString" in n:
                exported.add("CString")
            elif t.get("rt"):
                exported.add(pointee(t["rt"]))
            elif "fnval" in t:
                ga = t["fnval"].get("ga") or []
                exported.add(ga[0] if ga else "?")
        reclaimed = set()
        for b, bb, t, n in raw_calls(rel_fns, FROM):
            if "CString" in n:
                reclaimed.add("CString")
            elif t.get("rt"):
                m = re.match(r"std::boxed::Box<(.*)>$", t["rt"])
                reclaimed.add(m.group(1) if m else t["rt"])
        missing = sorted(exported - reclaimed)
        if not exported:
            ck.bad("C16.ffi-pair", iid, "no into_raw found in %s (anchor moved?)" % exports, None)
        elif missing:
            ck.bad("C16.ffi-pair", iid, "exported with into_raw but never reclaimed in %s: %s" % (release, missing), "%s:%s" % (rel_fns[0]["file"], rel_fns[0]["line"]))
        else:
            ck.ok("C16.ffi-pair", iid, "exported %s; reclaimed %s" % (sorted(exported), sorted(reclaimed)))
        # release = None on every path after reclaiming
        rb = Body(rel_fns[0])
        stores = [sb for sb, si, st in flow.field_stores(rb, "release") if flow.rv_is_variant(rb, st[2], "None")]
        reclaim_blocks = [bb for bb, t in rb.calls() if FROM.search(callee(t) or "")]
        rets = rb.return_blocks()
        bad = False
        for r in reclaim_blocks:
            for s in rb.succ(r):
                reach = rb.reachable(s, removed_blocks=stores)
                if any(x in reach for x in rets):
                    bad = True
        if not stores or not reclaim_blocks or bad:
            ck.bad("C16.ffi-release-clears", iid, "%s can return after reclaiming private data without storing release = None" % release, "%s:%s" % (rel_fns[0]["file"], rel_fns[0]["line"]))
        else:
            ck.ok("C16.ffi-release-clears", iid, "%d reclaim sites, all followed by release = None" % len(reclaim_blocks))
        fb = Body(fr)
        names = [callee(t) or "" for _, t in fb.calls()]
        if any(re.search(r"std::ptr::replace$|std::mem::replace$|std::mem::take$", n) for n in names) and not any(re.search(r"std::ptr::read(_unaligned|_volatile)?$", n) for n in names):
            ck.ok("C16.ffi-moveout", iid, "moves out with %s" % [n for n in names if "replace" in n or "take" in n])
        else:
            ck.bad("C16.ffi-moveout", iid, "%s no longer moves the struct out with ptr::replace(.., empty()): calls %s; the source keeps its release callback (double release)" % (fromraw, names),
                   "%s:%s" % (fr["file"], fr["line"]))


def field_touch_summary(F, crate, cache={}):
    """fn id -> set of self fields mentioned (for `&self`/`&mut self`/`self` methods)"""
    if crate in cache:
        return cache[crate]
    out = {}
    for fn in F.crate(crate).fns:
        if "mir" not in fn:
            continue
        fields = set()
        for bl in fn["mir"]["blocks"]:
            for s in bl["s"]:
                if s[0] != "a":
                    continue
                for p in [s[1]] + [op[1] for op in rvalue_operands(s[2]) if op[0] in ("c", "m")]:
                    if p[0] == 1:
                        for e in p[1]:
                            if isinstance(e, list) and e[0] == "f":
                                fields.add(e[2])
                                break
            t = bl["t"]
            if t["k"] == "call":
                for a in t["args"]:
                    if a[0] in ("c", "m") and a[1][0] == 1:
                        for e in a[1][1]:
                            if isinstance(e, list) and e[0] == "f":
                                fields.add(e[2])
                                break
        out[fn["id"]] = fields
    cache[crate] = out
    return out


def run_forget(ck, F, cfgname):
    ck.rule("C16.forget", "before mem::forget(v) of a crate-local owning type every needs_drop field of v has been read/taken/moved "
            "(a forgotten owner - e.g. a pool reservation - is never released); analysed with feature `pool` compiled in", floor=4)
    FORGET = re.compile(r"^std::mem::forget$")
    for cname in ["arrow_buffer", "arrow_data", "arrow_array", "arrow_schema"]:
        c = F.crate(cname)
        adts = {a["path"]: a for a in c.adts}
        summ = field_touch_summary(F, cname)
        for fn in c.fns:
            if "mir" not in fn:
                continue
            b = Body(fn)
            for bb, t in b.calls():
                if not FORGET.search(callee(t) or ""):
                    continue
                ty = t["aty"][0]
                base = re.sub(r"<.*$", "", ty)
                x = op_local(t["args"][0])
                if base not in adts or x is None:
                    ck.ok("C16.forget", "%s forget(%s)" % (fn["id"], ty), "not a crate-local owning type", nontrivial=False)
                    continue
                a = adts[base]
                need = [f["name"] for v in a["variants"] for f in v["fields"] if f["needs_drop"]]
                # aliases of x: x itself, refs to x, copies
                aliases = {x}
                changed = True
                while changed:
                    changed = False
                    for bl in range(b.n):
                        for s in b.stmts(bl):
                            # backward: x = move y  => y is the same value
                            if s[0] == "a" and not s[1][1] and s[1][0] in aliases and s[2][0] == "use" and s[2][1][0] in ("c", "m") \
                                    and not s[2][1][1][1] and s[2][1][1][0] not in aliases:
                                aliases.add(s[2][1][1][0]); changed = True
                            if s[0] == "a" and not s[1][1] and s[1][0] not in aliases:
                                rv = s[2]
                                if rv[0] in ("ref", "raw") and rv[2][0] in aliases and all(e == "*" for e in rv[2][1]):
                                    aliases.add(s[1][0]); changed = True
                                elif rv[0] == "use" and rv[1][0] in ("c", "m") and rv[1][1][0] in aliases and all(e == "*" for e in rv[1][1][1]):
                                    aliases.add(s[1][0]); changed = True
                touched = set()
                whole = False
                for bl in range(b.n):
                    for s in b.stmts(bl):
                        if s[0] != "a":
                            continue
                        places = [s[1]] + [op[1] for op in rvalue_operands(s[2]) if op[0] in ("c", "m")]
                        for p in places:
                            if p[0] in aliases:
                                for e in p[1]:
                                    if isinstance(e, list) and e[0] == "f":
                                        touched.add(e[2])
                                        break
                        if s[2][0] == "raw" and s[2][2][0] in aliases and not [e for e in s[2][2][1] if e != "*"]:
                            whole = True   # address taken as raw pointer: whole-value bitwise transfer (ptr::copy/ptr::write)
                    tt = b.term(bl)
                    if tt["k"] == "call" and tt is not t:
                        for a_ in tt["args"]:
                            if a_[0] in ("c", "m") and a_[1][0] in aliases:
                                fs = [e for e in a_[1][1] if isinstance(e, list) and e[0] == "f"]
                                if fs:
                                    touched.add(fs[0][2])
                                else:
                                    # method call on the value: use the callee's field summary
                                    for n in callee_names(tt):
                                        touched |= summ.get(n, set())
                                        touched |= summ.get(flow.norm(n), set())
                for f in need:
                    key = "%s forget(%s).%s" % (fn["id"], base.split("::")[-1], f)
                    if whole or f in touched:
                        ck.ok("C16.forget", key, "field is read/taken before the forget" if not whole else "whole value transferred by raw pointer before the forget")
                    elif (fn["id"], f) in FORGET_EXEMPT:
                        ck.ok("C16.forget", key, "exempt: " + FORGET_EXEMPT[(fn["id"], f)])
                    else:
                        ck.bad("C16.forget", key, "mem::forget(%s) while its owning field `%s` was never taken: whatever it owns is never released" % (ty, f), b.loc(bb))


SEND_SYNC = {
    # (type, trait) -> required where-clauses (the conditions under which sharing across threads is sound)
    ("arrow_buffer::buffer::immutable::Buffer", "Send"): ["arrow_buffer::bytes::Bytes: std::marker::Send"],
    ("arrow_buffer::buffer::immutable::Buffer", "Sync"): ["arrow_buffer::bytes::Bytes: std::marker::Sync"],
    ("arrow_buffer::buffer::mutable::MutableBuffer", "Send"): [],
    ("arrow_buffer::buffer::mutable::MutableBuffer", "Sync"): [],
    ("arrow_buffer::bytes::Bytes", "Send"): ["arrow_buffer::alloc::Deallocation: std::marker::Send"],
    ("arrow_buffer::bytes::Bytes", "Sync"): ["arrow_buffer::alloc::Deallocation: std::marker::Sync"],
    ("arrow_data::ffi::FFI_ArrowArray", "Send"): [],
    ("arrow_data::ffi::FFI_ArrowArray", "Sync"): [],
    ("arrow_array::ffi_stream::FFI_ArrowArrayStream", "Send"): [],
    ("arrow_schema::ffi::FFI_ArrowSchema", "Send"): [],
}


def run_ffi_fields(ck, F):
    ck.rule("C16.ffi-private-pointers-reclaimed", "every raw-pointer field of an FFI private-data struct (children, dictionary) is reclaimed in the release path: "
            "its value flows into Box::from_raw (in the release callback, its closures, or the Drop impl of the private data)", floor=4)
    FROM = re.compile(r"(Box::<.*>::from_raw|boxed::Box::<T.*>::from_raw)$")
    for adt_path, release in (("arrow_data::ffi::ArrayPrivateData", "arrow_data::ffi::release_array"), ("arrow_schema::ffi::SchemaPrivateData", "arrow_schema::ffi::release_schema")):
        try:
            adt = F.adt(adt_path)
            rel = with_closures(F, release)
        except factsmod.MissingAnchor as e:
            ck.missing_anchor(str(e), "C16.ffi-private-pointers-reclaimed")
            continue
        crate = F.crate(adt_path.split("::")[0])
        drop_fns = [f for f in crate.fns if f.get("impl_trait") == "std::ops::Drop" and re.sub(r"<.*$", "", f.get("impl_self") or "") == adt_path and "mir" in f]
        for d in list(drop_fns):
            drop_fns += [cl for cl in crate.closures_of.get(d["id"], []) if "mir" in cl]
        ptr_fields = [f["name"] for f in adt["variants"][0]["fields"] if "*mut " in f["ty"]]
        for field in ptr_fields:
            reclaimed = False
            for fn in rel + drop_fns:
                b = Body(fn)
                src = flow.locals_reading_field(b, field)
                if not src:
                    continue
                tainted = b.taint(src)
                for bb, t in b.calls():
                    if FROM.search(callee(t) or "") and any(l in tainted for a in t["args"] for l in operand_locals(a)):
                        reclaimed = True
                # closures capturing the field's elements (iter over children): closure created from tainted value
                for cl in crate.closures_of.get(fn.get("parent") if fn["kind"] == "Closure" else fn["id"], []):
                    if "mir" not in cl:
                        continue
                    if any(FROM.search(callee(t) or "") for _, t in Body(cl).calls()):
                        for pb, blk, loc in flow.closure_creations(F, cl):
                            if pb.fn is fn:
                                for (cb, ct, ai) in flow.value_flows_to_calls(pb, loc):
                                    if any(l in tainted for a in ct["args"] for l in operand_locals(a)):
                                        reclaimed = True
            key = "%s.%s" % (adt_path.split("::")[-1], field)
            if reclaimed:
                ck.ok("C16.ffi-private-pointers-reclaimed", key, "flows into Box::from_raw on release")
            else:
                ck.bad("C16.ffi-private-pointers-reclaimed", key, "the exported pointer(s) in %s.%s are never turned back into a Box on release: that array/schema and the buffers it owns are released zero times"
                       % (adt_path, field), "%s:%s" % (rel[0]["file"], rel[0]["line"]))


def run_pool_atomics(ck, FX):
    ck.rule("C16.pool-atomic-update", "the shared pool counter is only updated with atomic read-modify-write operations: no AtomicUsize::store whose value derives "
            "from an AtomicUsize::load (a load/compute/store sequence loses concurrent updates)", floor=2)
    c = FX.crate("arrow_buffer")
    n = 0
    for fn in c.fns:
        if "mir" not in fn or not flow.norm(fn.get("parent") or fn["id"]).startswith(("arrow_buffer::pool", "<arrow_buffer::pool")):
            continue
        b = Body(fn)
        for bb, t in b.calls():
            cn = callee(t) or ""
            if re.search(r"atomic::Atomic[^:]*(::<[^>]*>)?::(fetch_add|fetch_sub|fetch_update|compare_exchange|compare_exchange_weak|swap)$", cn):
                n += 1
                ck.ok("C16.pool-atomic-update", "%s -> %s" % (flow.norm(fn["id"]), cn.split("::")[-1]), "atomic read-modify-write")
            if re.search(r"atomic::Atomic[^:]*(::<[^>]*>)?::store$", cn) and len(t["args"]) >= 2:
                l = op_local(t["args"][1])
                derived = False
                if l is not None:
                    _, calls = b.back_slice(l)
                    derived = any(re.search(r"atomic::Atomic[^:]*(::<[^>]*>)?::load$", callee(c_) or "") for _, c_ in calls)
                if derived:
                    ck.bad("C16.pool-atomic-update", "%s -> store" % flow.norm(fn["id"]), "%s stores a value computed from a previous load of the atomic: concurrent claims/resizes/drops "
                           "lose updates and pool accounting drifts from the live reservations" % fn["id"], b.loc(bb))
                else:
                    ck.ok("C16.pool-atomic-update", "%s -> store" % flow.norm(fn["id"]), "store of an independent value")


def run_send_sync(ck, F):
    ck.rule("C16.send-sync-inventory", "the `unsafe impl Send/Sync` of the buffer and FFI crates are exactly the audited ones and keep their where-clauses "
            "(e.g. Buffer: Send only if Bytes: Send, Bytes only if its Deallocation owner is)", floor=len(SEND_SYNC))
    for cn in ["arrow_buffer", "arrow_data", "arrow_array", "arrow_schema"]:
        for im in F.crate(cn).impls:
            tr = im.get("trait")
            if tr not in ("std::marker::Send", "std::marker::Sync") or not im.get("unsafe"):
                continue
            key = (re.sub(r"<.*$", "", im["self_ty"]), tr.split("::")[-1])
            name = "%s: %s" % key
            if key not in SEND_SYNC:
                ck.bad("C16.send-sync-inventory", name, "new `unsafe impl %s for %s`: shared bytes / owners become reachable from other threads without an audit" % (key[1], key[0]), "%s:%s" % (im["file"], im["line"]))
            else:
                missing = [p_ for p_ in SEND_SYNC[key] if p_ not in im.get("preds", [])]
                if missing:
                    ck.bad("C16.send-sync-inventory", name, "`unsafe impl %s for %s` lost its condition %s" % (key[1], key[0], missing), "%s:%s" % (im["file"], im["line"]))
                else:
                    ck.ok("C16.send-sync-inventory", name, "audited; where %s" % (SEND_SYNC[key] or "(unconditional)"))


def run(ck, tier):
    F = factsmod.Facts("ws")
    from . import influence as _infl
    _infl.run(ck, F, 'C16')
    from . import mustpass as _mp
    _mp.run(ck, F, 'C16')
    from . import accum as _acc2
    _acc2.run2(ck, F, 'C16')
    from . import relations as _rel
    _rel.run(ck, F, 'C16')
    from . import guards as _grd
    _grd.run(ck, F, 'C16')
    from . import accum as _acc
    _acc.run(ck, F, 'C16')
    run_send_sync(ck, F)
    api.no_impl(ck, F, "C16.no-mut-view", ["arrow_buffer", "arrow_data", "arrow_array"], SHARED_TYPES, MUT_TRAITS)
    ck.rule("C16.witness", "compile-fail witnesses for immutability of shared buffers")
    # witnesses (buffer subset is in core.rs.txt; all are run, cheap)
    n = api.run_witnesses(ck, F, "C16.witness", "core.rs.txt", ["arrow_buffer", "arrow_data", "arrow_array", "arrow_schema", "arrow_ipc"])
    ck.floors["C16.witness"] = 18

    ck.rule("C16.const-cast", "*const -> *mut conversions (cast_mut / `as *mut`) in the buffer, data, array, schema, select, arith crates occur only in the audited functions", floor=3)
    seen = set()
    for c in F.crates(["arrow_buffer", "arrow_data", "arrow_array", "arrow_schema", "arrow_select", "arrow_arith", "arrow_cast", "arrow_ord", "arrow_row", "arrow_string", "arrow_ipc"]):
        for fn in c.fns:
            if "mir" not in fn:
                continue
            b = Body(fn)
            hit = None
            for bl in range(b.n):
                for s in b.stmts(bl):
                    if s[0] == "a" and s[2][0] == "cast" and s[2][4].startswith("*const") and s[2][3].startswith("*mut") and not s[4]:
                        hit = b.loc(bl)
                t = b.term(bl)
                if t["k"] == "call" and re.search(r"const_ptr::<impl \*const T>::cast_mut$", callee(t) or ""):
                    hit = b.loc(bl)
            if hit and fn["id"] not in seen:
                seen.add(fn["id"])
                if fn["id"] in CONST_CAST_OK:
                    ck.ok("C16.const-cast", fn["id"], "audited: " + CONST_CAST_OK[fn["id"]])
                else:
                    ck.bad("C16.const-cast", fn["id"], "new *const -> *mut conversion: a pointer into possibly shared memory becomes writable", hit)

    ck.rule("C16.unique-before-mut", "Buffer -> mutable conversions obtain the owned/mutable Bytes only from Arc::try_unwrap / Arc::get_mut "
            "(uniqueness test) and use no back door (ptr::read, Arc::as_ptr/into_raw, get_mut_unchecked, transmute)", floor=len(UNIQUE))
    BACKDOOR = re.compile(r"(std::ptr::read(_unaligned|_volatile)?|Arc::<T, A>::(as_ptr|into_raw|get_mut_unchecked|from_raw)|std::intrinsics::transmute|std::mem::transmute(_copy)?|std::mem::zeroed)$")
    for iid, fid, pat in UNIQUE:
        try:
            fns = with_closures(F, fid)
        except factsmod.MissingAnchor:
            ck.missing_anchor(fid, "C16.unique-before-mut")
            continue
        names = [callee(t) or "" for fn in fns for _, t in Body(fn).calls()]
        uniq = [n for n in names if pat.search(n)]
        back = [n for n in names if BACKDOOR.search(n)]
        # transmute shows up as a Cast in MIR
        for fn in fns:
            for bl in fn["mir"]["blocks"]:
                for st in bl["s"]:
                    if st[0] == "a" and st[2][0] == "cast" and st[2][1] == "Transmute" and not st[4]:
                        back.append("transmute@%s" % st[3])
        if uniq and not back:
            ck.ok("C16.unique-before-mut", iid, "uniqueness via %s; no back door among %d calls" % (sorted(set(uniq)), len(names)))
        else:
            ck.bad("C16.unique-before-mut", iid, "%s: uniqueness test %s missing or back door present %s" % (fid, pat.pattern, back), "%s:%s" % (fns[0]["file"], fns[0]["line"]))

    ck.rule("C16.inplace-through-unique", "in-place kernels obtain their mutable storage only through the uniqueness-checked conversions", floor=len(INPLACE))
    for iid, fid, via in INPLACE:
        try:
            fns = with_closures(F, fid)
        except factsmod.MissingAnchor:
            ck.missing_anchor(fid, "C16.inplace-through-unique")
            continue
        names = [callee(t) or "" for fn in fns for _, t in Body(fn).calls()]
        if any(flow.norm(n).split("::")[-1] in via for n in names):
            ck.ok("C16.inplace-through-unique", iid, "reaches %s" % via)
        else:
            ck.bad("C16.inplace-through-unique", iid, "%s no longer goes through %s to obtain mutable storage" % (fid, via), "%s:%s" % (fns[0]["file"], fns[0]["line"]))

    run_ffi(ck, F)
    run_ffi_fields(ck, F)
    pairs.check_cross(ck, F, "C16.export-bit-offsets", ["arrow_data", "arrow_array", "arrow_buffer"], 2)
    FX = factsmod.Facts("ext")
    run_forget(ck, FX, "ext")
    run_pool_atomics(ck, FX)
    ck.note("Decided: type-level immutability (witnesses + impl facts), audited const casts, uniqueness before mutation, FFI export/release pairing, "
            "no stranded owner on mem::forget (pool feature on). Not decided: thread interleavings, logical equality of imported arrays.")
    info = dict(F.info)
    info["ext"] = {k: FX.info[k] for k in ("cfg", "rebuilt", "extract_s")}
    info.pop("files", None)
    return info


def _is_err_passthrough(b, e):
    """exit block that only returns the original buffer as Err (declining), not a success"""
    for s in b.stmts(e):
        if s[0] == "a" and s[1][0] == 0 and s[2][0] == "agg" and s[2][1][0] == "adt" and s[2][1][3] == "Err":
            return True
    return False
