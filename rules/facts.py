"""Fact extraction (runs the arrowfacts driver under cargo check) and loading.

Freshness: each configuration owns a persistent cargo target dir and a persistent facts dir
(both keyed by the driver binary's hash).  cargo's own fingerprinting decides which workspace
crates are re-checked after an edit under /repo; exactly those crates get their fact file
rewritten by the driver (RUSTC_WORKSPACE_WRAPPER), the rest keep the file produced when they
were last compiled.  A crate that fails to compile makes cargo exit non-zero -> the check fails
closed.  Every run asserts one fact file per expected crate.
"""
import fcntl, glob, hashlib, json, os, subprocess, sys, time

VERIF = os.path.dirname(os.path.dirname(os.path.abspath(__file__)))
REPO = os.environ.get("VERIF_REPO", "/repo")
DRIVER = os.path.join(VERIF, "driver/target/release/arrowfacts")

CONFIGS = {
    # identical feature unification to the baseline test build
    "ws": ["--workspace", "--lib"],
    # optional code the baseline never compiles: memory pool accounting, async parquet, encryption
    "ext": ["-p", "arrow-buffer", "-p", "arrow-data", "-p", "arrow-array", "-p", "arrow-schema", "--lib", "--features",
            "arrow-buffer/pool,arrow-array/pool,arrow-data/pool,arrow-array/ffi,arrow-data/ffi,arrow-schema/ffi"],
}
EXPECTED = {"ext": ["arrow_buffer", "arrow_data", "arrow_array", "arrow_schema"]}

EXPECTED_CRATES = [
    "arrow", "arrow_arith", "arrow_array", "arrow_avro", "arrow_buffer", "arrow_cast", "arrow_cmp",
    "arrow_csv", "arrow_data", "arrow_flight", "arrow_ipc", "arrow_json", "arrow_ord", "arrow_row",
    "arrow_schema", "arrow_select", "arrow_string", "parquet", "parquet_variant",
    "parquet_variant_compute", "parquet_variant_json", "parquet_geospatial",
]


def _sysroot():
    return subprocess.check_output(["rustc", "+nightly", "--print", "sysroot"], text=True).strip()


def driver_hash():
    with open(DRIVER, "rb") as f:
        return hashlib.sha256(f.read()).hexdigest()[:12]


def cache_dir(cfg, repo=None):
    repo = repo or REPO
    tag = "" if repo == "/repo" else "-" + hashlib.sha256(repo.encode()).hexdigest()[:8]
    base = os.environ.get("VERIF_CACHE", os.path.join(VERIF, ".cache"))
    return os.path.join(base, driver_hash(), cfg + tag)


def build_driver():
    env = dict(os.environ, CARGO_NET_OFFLINE="true")
    subprocess.check_call(["cargo", "+nightly", "build", "--release", "--offline", "-q"],
                          cwd=os.path.join(VERIF, "driver"), env=env)


def extract(cfg="ws", repo=None, quiet=True):
    """Bring the facts of configuration `cfg` up to date with the working tree of `repo`."""
    repo = repo or REPO
    if not os.path.exists(DRIVER):
        build_driver()
    cd = cache_dir(cfg, repo)
    facts = os.path.join(cd, "facts")
    target = os.path.join(cd, "target")
    os.makedirs(facts, exist_ok=True)
    os.makedirs(target, exist_ok=True)
    t0 = time.time()
    with open(os.path.join(cd, "lock"), "w") as lk:
        fcntl.flock(lk, fcntl.LOCK_EX)
        env = dict(os.environ)
        env.update({
            "LD_LIBRARY_PATH": _sysroot() + "/lib",
            "RUSTFLAGS": "-Zmir-opt-level=0 -Awarnings",
            "RUSTC_WORKSPACE_WRAPPER": DRIVER,
            "ARROWFACTS_OUT": facts,
            "CARGO_TARGET_DIR": target,
            "CARGO_NET_OFFLINE": "true",
            "CARGO_INCREMENTAL": "0",
        })
        env.pop("RUSTC_WRAPPER", None)
        cmd = ["cargo", "+nightly", "check", "--offline"] + CONFIGS[cfg]
        p = subprocess.run(cmd, cwd=repo, env=env, stdout=subprocess.PIPE, stderr=subprocess.STDOUT, text=True)
        if p.returncode != 0:
            sys.stdout.write(p.stdout[-6000:])
            raise SystemExit("FATAL: cargo check failed for configuration %s; cannot analyse a tree that does not build" % cfg)
        rebuilt = [l.split()[1] for l in p.stdout.splitlines() if l.strip().startswith("Checking") and "(/" in l]
    files = {}
    for f in glob.glob(os.path.join(facts, "*.json")):
        name = os.path.basename(f).rsplit("-", 1)[0]
        # keep the newest file per crate name (a changed Cargo.toml can change the stable id)
        if name not in files or os.path.getmtime(f) > os.path.getmtime(files[name]):
            files[name] = f
    missing = [c for c in EXPECTED.get(cfg, EXPECTED_CRATES) if c not in files]
    if missing:
        raise SystemExit("FATAL: no fact file for crates %s (configuration %s)" % (missing, cfg))
    return {"cfg": cfg, "dir": facts, "files": files, "rebuilt": rebuilt, "extract_s": round(time.time() - t0, 2)}


class Crate:
    def __init__(self, path):
        with open(path) as f:
            d = json.load(f)
        self.name = d["crate"]
        self.raw = d
        self.fns = d["fns"]
        self.adts = d["adts"]
        self.impls = d["impls"]
        self.consts = d["consts"]
        self.unsafe_blocks = d["unsafe_blocks"]
        self.features = d["features"]
        self.by_id = {}
        for fn in self.fns:
            self.by_id.setdefault(fn["id"], []).append(fn)
        self.closures_of = {}
        for fn in self.fns:
            if fn["kind"] == "Closure":
                self.closures_of.setdefault(fn["parent"], []).append(fn)


class Facts:
    def __init__(self, cfg="ws", repo=None):
        self.info = extract(cfg, repo)
        self.cfg = cfg
        self._crates = {}

    def crate(self, name):
        if name not in self._crates:
            self._crates[name] = Crate(self.info["files"][name])
        return self._crates[name]

    def crates(self, names=None):
        return [self.crate(n) for n in (names or EXPECTED_CRATES)]

    def fn(self, fid, required=True):
        """Look a function up by its full def path (crate name first)."""
        cname = fid.lstrip("<").split("::", 1)[0]
        cands = []
        if cname in self.info["files"]:
            cands = self.crate(cname).by_id.get(fid, [])
        if not cands:
            for n in EXPECTED_CRATES:
                cands = self.crate(n).by_id.get(fid, [])
                if cands:
                    break
        if not cands:
            r = self.resolve(fid) if not getattr(self, "_in_resolve", False) else None
            if r is not None:
                return r
            if required:
                raise MissingAnchor(fid)
            return None
        return cands[0]

    def resolve(self, name):
        """resolve a callee name as printed at a call site (possibly through a re-export, with generic
        arguments) to the defining function's facts: exact id, then generic-stripped id, then a unique
        match on `Type::method` within the named crate."""
        from .flow import norm
        self._in_resolve = True
        try:
            fn = self.fn(name, required=False)
        finally:
            self._in_resolve = False
        if fn is not None:
            return fn
        n = norm(name)
        cname = n.lstrip("<").split("::", 1)[0]
        if cname not in self.info["files"]:
            return None
        c = self.crate(cname)
        if not hasattr(c, "_norm_index"):
            idx = {}
            for f in c.fns:
                idx.setdefault(norm(f["id"]), []).append(f)
                segs = norm(f["id"]).split("::")
                if len(segs) >= 2:
                    idx.setdefault("~" + "::".join(segs[-2:]), []).append(f)
            c._norm_index = idx
        hit = c._norm_index.get(n)
        if hit and len(hit) == 1:
            return hit[0]
        segs = n.split("::")
        hit = c._norm_index.get("~" + "::".join(segs[-2:])) if len(segs) >= 2 else None
        if hit and len(hit) == 1:
            return hit[0]
        return None

    def fns_matching(self, pred, crates=None):
        for c in self.crates(crates):
            for fn in c.fns:
                if pred(fn):
                    yield c, fn

    def adt(self, path, required=True):
        cname = path.split("::", 1)[0]
        for a in (self.crate(cname).adts if cname in self.info["files"] else []):
            if a["path"] == path:
                return a
        if required:
            raise MissingAnchor(path)
        return None


class MissingAnchor(Exception):
    pass
