"""Check context: rule instances, violations, floors, known findings, evidence."""
import json, os, sys, time

VERIF = os.path.dirname(os.path.dirname(os.path.abspath(__file__)))


def load_known():
    """known_findings.txt: `<property> <key> :: <description>` suppresses exactly that key;
    `fixed: property=<id> <commit> <what>` lines are records only and suppress nothing."""
    known = {}
    p = os.path.join(VERIF, "known_findings.txt")
    if os.path.exists(p):
        for line in open(p):
            line = line.strip()
            if not line or line.startswith("#") or line.startswith("fixed:"):
                continue
            head, _, desc = line.partition(" :: ")
            pid, _, key = head.partition(" ")
            known.setdefault(pid, {})[key.strip()] = desc.strip()
    return known


class Check:
    def __init__(self, pid, tier="quick", seed=0):
        self.pid = pid
        self.tier = tier
        self.seed = seed
        self.t0 = time.time()
        self.instances = []       # (rule, key, verdict, detail)
        self.violations = []      # dict(rule,key,msg,loc)
        self.floors = {}          # rule -> minimum instance count
        self.notes = []
        self.analysed = {}        # free-form counters
        self.assumptions = []
        self.rules = {}           # rule id -> description
        self.info = []

    # ---- recording
    def rule(self, rid, desc, floor=None):
        self.rules[rid] = desc
        if floor is not None:
            self.floors[rid] = floor

    def ok(self, rule, key, detail=None, nontrivial=True):
        self.instances.append((rule, key, "ok", detail, nontrivial))

    def bad(self, rule, key, msg, loc=None, detail=None):
        self.instances.append((rule, key, "VIOLATED", detail or msg, True))
        self.violations.append({"rule": rule, "key": "%s:%s" % (rule, key), "msg": msg, "loc": loc, "detail": detail})

    def count(self, name, n=1):
        self.analysed[name] = self.analysed.get(name, 0) + n

    def note(self, s):
        self.notes.append(s)

    def missing_anchor(self, name, rule):
        self.violations.append({"rule": rule, "key": "%s:missing-anchor:%s" % (rule, name),
                                "msg": "anchor %s named by rule %s no longer resolves; the rule cannot be decided (fail closed)" % (name, rule),
                                "loc": None, "detail": None})

    # ---- finishing
    def finish(self, facts_info=None):
        # floors: a rule matching fewer instances than were confirmed by hand must not pass vacuously
        per_rule = {}
        for (r, k, v, d, nt) in self.instances:
            per_rule[r] = per_rule.get(r, 0) + 1
        for r, fl in self.floors.items():
            if per_rule.get(r, 0) < fl:
                self.violations.append({"rule": r, "key": "%s:rule-lost-instances" % r,
                                        "msg": "rule %s matched %d instances, fewer than the %d confirmed on the reference tree: the rule's anchors moved or vanished (fail closed)" % (r, per_rule.get(r, 0), fl),
                                        "loc": None, "detail": None})
        known = load_known().get(self.pid, {})
        new, kf = [], []
        for v in self.violations:
            if v["key"] in known:
                kf.append(v)
            else:
                new.append(v)
        evdir = os.environ.get("VERIF_EVIDENCE_DIR") or os.path.join(VERIF, "evidence")
        rep_dir = os.path.join(evdir, "reports")
        os.makedirs(rep_dir, exist_ok=True)
        for v in kf:
            print("KNOWN-FINDING: property=%s %s -- %s" % (self.pid, v["key"], known[v["key"]]))
        for i, v in enumerate(new):
            path = os.path.join(rep_dir, "%s-%d.json" % (self.pid, i))
            with open(path, "w") as f:
                json.dump(v, f, indent=1)
            print("  [%s] %s\n      at %s\n      %s" % (v["rule"], v["key"], v["loc"], v["msg"]))
            print("VIOLATION property=%s replay=%s" % (self.pid, path))
        distinct = set()
        for (r, k, v, d, nt) in self.instances:
            if nt:
                distinct.add((r, k))
        samples = []
        seen_rules = {}
        for (r, k, v, d, nt) in self.instances:
            if seen_rules.get(r, 0) < 6:
                seen_rules[r] = seen_rules.get(r, 0) + 1
                samples.append({"rule": r, "instance": k, "verdict": v, "detail": d})
        ev = {
            "property_id": self.pid,
            "tier": self.tier,
            "seed": self.seed,
            "level": "other",
            "coverage": {
                "explanation": "static analysis of /repo's type-checked MIR (rustc_private driver under cargo check) and compile-fail witnesses; "
                               "decides the structural clauses listed in `rules`, not the value-level behaviour. " + " ".join(self.notes),
                "evaluations": len(self.instances),
                "distinct_nontrivial": len(distinct),
                "rule": "one evaluation = one rule instance (call site, function, match arm set, abstract type, witness) decided from the current source; "
                        "non-trivial = the verdict required inspecting at least one CFG path / arm / compiler run",
                "samples": samples,
                "rules": self.rules,
                "instances_per_rule": per_rule,
                "floors": self.floors,
                "analysed": self.analysed,
                "facts": facts_info or {},
                "known_findings_reported": [v["key"] for v in kf],
                "selftest": getattr(self, "selftest", None),
                "exhaustive": True,
            },
            "assumptions": self.assumptions or ["rustc's type checker and MIR construction are trusted", "only configurations that build offline are analysed"],
            "wall_s": round(time.time() - self.t0, 2),
            "violations": len(new),
        }
        out = os.path.join(evdir, "%s.json" % self.pid)
        tmp = out + ".tmp"
        with open(tmp, "w") as f:
            json.dump(ev, f, indent=1)
        os.replace(tmp, out)
        print("%s: %d rule instances over %d rules, %d violations, %d known findings (%.1fs)" % (
            self.pid, len(self.instances), len(per_rule), len(new), len(kf), time.time() - self.t0))
        for r in sorted(per_rule):
            print("   %-28s %5d instances%s" % (r, per_rule[r], ("  (floor %d)" % self.floors[r]) if r in self.floors else ""))
        return 1 if new else 0


class Renamed:
    """view of a Check that records rule ids under another property prefix (rules shared between properties)"""
    def __init__(self, ck, src, dst):
        self.ck, self.src, self.dst = ck, src, dst
        self.floors = _FloorProxy(self)

    def _r(self, rid):
        return self.dst + rid[len(self.src):] if rid.startswith(self.src) else rid

    def rule(self, rid, desc, floor=None):
        self.ck.rule(self._r(rid), desc, floor)

    def ok(self, rule, key, detail=None, nontrivial=True):
        self.ck.ok(self._r(rule), key, detail, nontrivial)

    def bad(self, rule, key, msg, loc=None, detail=None):
        self.ck.bad(self._r(rule), key, msg, loc, detail)

    def missing_anchor(self, name, rule):
        self.ck.missing_anchor(name, self._r(rule))

    def count(self, name, n=1):
        self.ck.count(name, n)

    def note(self, s):
        pass

    @property
    def instances(self):
        return self.ck.instances

    @property
    def rules(self):
        return self.ck.rules


class _FloorProxy:
    def __init__(self, r):
        self.r = r

    def __setitem__(self, k, v):
        self.r.ck.floors[self.r._r(k)] = v

    def __getitem__(self, k):
        return self.r.ck.floors[self.r._r(k)]
