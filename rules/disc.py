"""DISC — Result-discipline engine.

For a call whose destination has type Result<_, E>, classify what happens to the value:
  propagated   moved into `?` (Try::branch), returned, stored, or passed to another function
  handled      matched and the Err payload is read
  converted    map_err/or_else/... and the converted value is itself not discarded
  panicked     unwrap/expect
  discarded    dropped unused, `.ok()`, `.is_ok()`, `.unwrap_or*()`, `if let Ok(..)` with the Err
               payload never read and the Err edge not leading to a rejecting exit
"""
import re
from .mirlib import Body, callee, callee_names, op_place, operand_locals, rvalue_locals, rvalue_operands

RESULT_RE = re.compile(r"^std::result::Result<")


def split_generic(ty):
    """'std::result::Result<A, B>' -> ['A','B'] (top-level split)."""
    i = ty.find("<")
    if i < 0 or not ty.endswith(">"):
        return []
    inner = ty[i + 1:-1]
    out, depth, cur = [], 0, ""
    for ch in inner:
        if ch in "<([":
            depth += 1
        elif ch in ">)]":
            depth -= 1
        if ch == "," and depth == 0:
            out.append(cur.strip())
            cur = ""
        else:
            cur += ch
    if cur.strip():
        out.append(cur.strip())
    return out


def result_err_type(ty):
    if not RESULT_RE.match(ty):
        return None
    parts = split_generic(ty)
    if len(parts) == 2:
        return parts[1]
    return None


def short(name):
    """method name without generic noise:
       'std::result::Result::<T, E>::unwrap_or' -> 'Result::unwrap_or'
       '<std::io::BufWriter<W> as std::io::Write>::write' -> 'Write::write'"""
    from .flow import norm
    n = name
    if n.startswith("<") and " as " in n:
        # <T as Trait<..>>::method
        depth = 0
        for i, ch in enumerate(n):
            if ch == "<":
                depth += 1
            elif ch == ">":
                depth -= 1
                if depth == 0:
                    inner, rest = n[1:i], n[i + 1:]
                    tr = inner.rsplit(" as ", 1)[1]
                    n = norm_generic(tr) + rest
                    break
    n = norm(n)
    n = re.sub(r"<[^<>]*>", "", n)
    parts = [p for p in n.split("::") if p]
    return "::".join(parts[-2:])


def norm_generic(t):
    i = t.find("<")
    return t if i < 0 else t[:i]


PANIC = {"Result::unwrap", "Result::expect", "Result::unwrap_unchecked"}
DISCARD = {"Result::ok", "Result::is_ok", "Result::is_err", "Result::unwrap_or", "Result::unwrap_or_default",
           "Result::map_or", "Result::is_ok_and", "Result::iter", "Result::into_iter", "Result::unwrap_or_else",
           "Result::map_or_else", "Result::is_err_and", "IntoIterator::into_iter"}
# closures receive the error: whether they use it is decided by looking at the closure
DISCARD_UNLESS_CLOSURE_USES_ERR = {"Result::unwrap_or_else", "Result::map_or_else", "Result::is_err_and"}
FOLLOW = {"Result::map", "Result::map_err", "Result::and_then", "Result::or_else", "Result::inspect_err",
          "Result::inspect", "Result::as_ref", "Result::as_mut", "Result::copied", "Result::cloned",
          "Result::transpose", "Result::flatten", "Into::into", "From::from", "Result::and", "Result::or",
          "Result::as_deref", "Result::as_deref_mut"}
HANDLED = {"Result::err", "Result::unwrap_err", "Result::expect_err", "Result::into_err"}


def err_payload_read(body, local):
    """is `(local as Err).0` (variant index 1) projected anywhere?"""
    def place_hits(p):
        if p[0] != local:
            return False
        for e in p[1]:
            if isinstance(e, list) and e[0] == "v" and e[2] == "Err":
                return True
        return False
    for b in range(body.n):
        for s in body.stmts(b):
            if s[0] == "a":
                for op in rvalue_operands(s[2]):
                    p = op_place(op)
                    if p is not None and place_hits(p):
                        return True
        t = body.term(b)
        if t["k"] in ("call", "tailcall"):
            for a in t["args"]:
                p = op_place(a)
                if p is not None and place_hits(p):
                    return True
    return False


def err_edge_rejects(body, local):
    """After `match local { .. Err(_) => X }`: does every path from the Err edge reach a
    rejecting exit (assigns an Err aggregate to _0 / from_residual / diverges) before return?"""
    # find discriminant temps of `local`
    discr_tmps = set()
    for b in range(body.n):
        for s in body.stmts(b):
            if s[0] == "a" and s[2][0] == "discr" and s[2][1][0] == local:
                discr_tmps.add(s[1][0])
    err_targets = []
    for b in range(body.n):
        t = body.term(b)
        if t["k"] == "switch" and any(l in discr_tmps for l in operand_locals(t["d"])):
            vals = dict((v, tg) for v, tg in t["ts"])
            if "1" in vals:
                err_targets.append(vals["1"])
            else:
                err_targets.append(t["else"])
    if not err_targets:
        return None
    rejecting = set()
    for b in range(body.n):
        for s in body.stmts(b):
            if s[0] == "a" and s[1][0] == 0 and s[2][0] == "agg" and s[2][1][0] == "adt" and s[2][1][3] == "Err":
                rejecting.add(b)
        t = body.term(b)
        if t["k"] == "call":
            n = callee(t) or ""
            if "from_residual" in n and t["dest"][0] == 0:
                rejecting.add(b)
    rets = body.return_blocks()
    for e in err_targets:
        # can we reach a return from e without passing a rejecting block?
        r = body.reachable(e, removed_blocks=rejecting)
        if any(x in r for x in rets):
            return False
    return True


def classify(body, dest_local, fns_by_id=None, depth=0, seen=None):
    """returns (fate, why)"""
    seen = seen or set()
    if dest_local in seen or depth > 6:
        return ("propagated", "alias-cycle")
    seen.add(dest_local)
    if dest_local == 0:
        return ("propagated", "returned")
    fates = []
    matched = False
    for u in body.uses(dest_local):
        k = u["kind"]
        if k == "arg":
            t = u["t"]
            names = [short(n) for n in callee_names(t)]
            full = callee(t)
            if any("Try::branch" in n or n.endswith("::branch") for n in names):
                fates.append(("propagated", "?"))
            elif any(n in PANIC for n in names):
                fates.append(("panicked", names[0]))
            elif any(n in HANDLED for n in names):
                fates.append(("handled", names[0]))
            elif any(n in FOLLOW for n in names):
                if t["dest"][1]:
                    fates.append(("propagated", "stored"))
                else:
                    f, w = classify(body, t["dest"][0], fns_by_id, depth + 1, seen)
                    fates.append((f if f != "handled" else "handled", "%s -> %s" % (names[0], w)))
            elif any(n in DISCARD for n in names):
                fates.append(("discarded", names[0]))
            else:
                fates.append(("propagated", "passed to %s" % short(full or "?")))
        elif k == "stmt":
            rv = u["s"][2]
            dst = u["s"][1]
            if rv[0] == "discr":
                matched = True
            elif rv[0] in ("use", "ref", "raw", "cast"):
                # alias / move: direct move of whole value vs. projection of payload
                src = None
                for op in rvalue_operands(rv):
                    p = op_place(op)
                    if p is not None and p[0] == dest_local:
                        src = p
                if src is not None and src[1]:
                    # payload projection ((x as Ok).0 / (x as Err).0): handled by `matched`
                    continue
                if dst[1] or dst[0] == 0:
                    fates.append(("propagated", "stored"))
                else:
                    f, w = classify(body, dst[0], fns_by_id, depth + 1, seen)
                    fates.append((f, "alias -> %s" % w))
            elif rv[0] == "agg":
                fates.append(("propagated", "stored in aggregate"))
            else:
                fates.append(("propagated", "used in %s" % rv[0]))
        elif k in ("yield",):
            fates.append(("propagated", "yielded"))
        elif k == "store_through":
            pass
    if matched:
        if err_payload_read(body, dest_local):
            fates.append(("handled", "match reads Err payload"))
        else:
            rej = err_edge_rejects(body, dest_local)
            if rej:
                fates.append(("handled", "Err arm rejects"))
            else:
                fates.append(("discarded", "matched, Err payload unread and Err arm continues"))
    if not fates:
        return ("discarded", "never used (dropped)")
    order = ["propagated", "handled", "panicked", "discarded"]
    # a Result is consumed once; if any consumer keeps the error, it is kept
    for o in order:
        for f, w in fates:
            if f == o:
                return (f, w)
    return fates[0]


def result_calls(body, err_pred):
    """yield (block, term, err_type) for calls returning Result<_, E> with err_pred(E)."""
    for b, t in body.calls():
        if t["k"] != "call":
            continue
        et = result_err_type(t.get("rt", ""))
        if et is None or not err_pred(et):
            continue
        yield b, t, et
