#!/bin/sh
# Build the fact extractor and warm the analysis cache (offline, from files on disk only).
set -e
cd "$(dirname "$0")"
export CARGO_NET_OFFLINE=true
(cd driver && cargo +nightly build --release --offline -q)
python3 - <<'PY'
import sys
sys.path.insert(0, '.')
from rules import facts
i = facts.extract("ws"); facts.extract("ext")
print('facts ready:', len(i['files']), 'crates,', i['extract_s'], 's')
PY
