//! arrowfacts — a rustc_private fact extractor.
//!
//! Used as RUSTC_WORKSPACE_WRAPPER under `cargo +nightly check`. For every workspace crate it
//! runs the normal compilation up to the end of analysis and then writes ONE json fact file
//! (`$ARROWFACTS_OUT/<crate>-<stable id>.json`) holding ADTs, impls, function signatures and
//! the MIR (at -Zmir-opt-level=0) of every function body with resolved callees. It judges
//! nothing: all rules live in /verif/rules.
#![feature(rustc_private)]
#![allow(clippy::all)]

extern crate rustc_abi;
extern crate rustc_driver;
extern crate rustc_hir;
extern crate rustc_interface;
extern crate rustc_middle;
extern crate rustc_span;

mod json;
use json::J;

use rustc_driver::Compilation;
use rustc_hir as hir;
use rustc_hir::def::DefKind;
use rustc_hir::def_id::{DefId, LocalDefId};
use rustc_middle::mir::{self, Body, Operand, Place, PlaceElem, Rvalue, StatementKind, TerminatorKind};
use rustc_middle::ty::print::{with_crate_prefix, with_no_trimmed_paths};
use rustc_middle::ty::{self, Instance, Ty, TyCtxt, TypingEnv};
use rustc_span::Span;

struct Cb;

impl rustc_driver::Callbacks for Cb {
    fn after_analysis<'tcx>(
        &mut self,
        _compiler: &rustc_interface::interface::Compiler,
        tcx: TyCtxt<'tcx>,
    ) -> Compilation {
        dump(tcx);
        Compilation::Continue
    }
}

fn main() {
    let argv: Vec<String> = std::env::args().collect();
    // RUSTC_WORKSPACE_WRAPPER passes the real rustc path as argv[1].
    let mut args = vec!["rustc".to_string()];
    args.extend(argv.iter().skip(2).cloned());
    rustc_driver::run_compiler(&args, &mut Cb);
}

thread_local! {
    static KRATE: std::cell::RefCell<String> = std::cell::RefCell::new(String::new());
}

/// Printed paths use `crate::` for local items; rewrite to the crate's name so that a path reads
/// the same from inside and outside the defining crate.
fn fix(s: String) -> String {
    if !s.contains("crate::") {
        return s;
    }
    KRATE.with(|k| s.replace("crate::", &format!("{}::", k.borrow())))
}

fn tys<'tcx>(t: Ty<'tcx>) -> String {
    fix(with_crate_prefix!(with_no_trimmed_paths!(t.to_string())))
}

fn gas<'tcx>(a: ty::GenericArg<'tcx>) -> String {
    fix(with_crate_prefix!(with_no_trimmed_paths!(a.to_string())))
}

fn dpath(tcx: TyCtxt<'_>, d: DefId) -> String {
    fix(with_crate_prefix!(with_no_trimmed_paths!(tcx.def_path_str(d))))
}

struct Cx<'tcx> {
    tcx: TyCtxt<'tcx>,
}

impl<'tcx> Cx<'tcx> {
    fn loc(&self, sp: Span) -> (String, usize, usize, usize, usize) {
        let sm = self.tcx.sess.source_map();
        let sp = sp.source_callsite();
        let lo = sm.lookup_char_pos(sp.lo());
        let hi = sm.lookup_char_pos(sp.hi());
        let name = format!("{}", lo.file.name.prefer_local_unconditionally());
        (name, lo.line, lo.col.0, hi.line, hi.col.0)
    }

    fn span_j(&self, sp: Span) -> J {
        let (_, l, c, el, ec) = self.loc(sp);
        J::Arr(vec![J::n(l), J::n(c), J::n(el), J::n(ec)])
    }

    fn line(&self, sp: Span) -> J {
        let sm = self.tcx.sess.source_map();
        let sp = sp.source_callsite();
        J::n(sm.lookup_char_pos(sp.lo()).line)
    }

    fn expn(&self, sp: Span) -> J {
        if !sp.from_expansion() {
            return J::Null;
        }
        let mut v = vec![];
        for e in sp.macro_backtrace() {
            v.push(J::s(format!("{}", e.kind.descr())));
        }
        J::Arr(v)
    }

    fn place(&self, body: &Body<'tcx>, p: &Place<'tcx>) -> J {
        let tcx = self.tcx;
        let mut proj = vec![];
        let mut pty = mir::PlaceTy::from_ty(body.local_decls[p.local].ty);
        for elem in p.projection.iter() {
            let j = match elem {
                PlaceElem::Deref => J::s("*"),
                PlaceElem::Field(f, fty) => {
                    let mut name = J::Null;
                    if let ty::Adt(adt, _) = pty.ty.kind() {
                        let vi = pty.variant_index.unwrap_or(rustc_abi::FIRST_VARIANT);
                        if vi.as_usize() < adt.variants().len() {
                            let v = adt.variant(vi);
                            if f.as_usize() < v.fields.len() {
                                name = J::s(v.fields[f].name.to_string());
                            }
                        }
                    }
                    J::Arr(vec![J::s("f"), J::n(f.as_usize()), name, J::s(tys(fty))])
                }
                PlaceElem::Downcast(_, vi) => {
                    let mut name = J::Null;
                    if let ty::Adt(adt, _) = pty.ty.kind() {
                        if vi.as_usize() < adt.variants().len() {
                            name = J::s(adt.variant(vi).name.to_string());
                        }
                    }
                    J::Arr(vec![J::s("v"), J::n(vi.as_usize()), name])
                }
                PlaceElem::Index(l) => J::Arr(vec![J::s("i"), J::n(l.as_usize())]),
                PlaceElem::ConstantIndex { offset, from_end, .. } => {
                    J::Arr(vec![J::s("ci"), J::n(offset), J::Bool(from_end)])
                }
                PlaceElem::Subslice { from, to, from_end } => {
                    J::Arr(vec![J::s("ss"), J::n(from), J::n(to), J::Bool(from_end)])
                }
                other => J::Arr(vec![J::s("o"), J::s(format!("{:?}", other))]),
            };
            proj.push(j);
            pty = pty.projection_ty(tcx, elem);
        }
        J::Arr(vec![J::n(p.local.as_usize()), J::Arr(proj)])
    }

    fn place_ty(&self, body: &Body<'tcx>, p: &Place<'tcx>) -> Ty<'tcx> {
        p.ty(&body.local_decls, self.tcx).ty
    }

    fn fn_ref(&self, owner: DefId, def_id: DefId, args: ty::GenericArgsRef<'tcx>) -> J {
        let tcx = self.tcx;
        let mut o: Vec<(&'static str, J)> = vec![];
        o.push(("path", J::s(dpath(tcx, def_id))));
        o.push(("ga", J::Arr(args.iter().map(|a| J::s(gas(a))).collect())));
        let dk = tcx.def_kind(def_id);
        if matches!(dk, DefKind::Fn | DefKind::AssocFn) {
            let sig = tcx.fn_sig(def_id).skip_binder();
            if sig.safety().is_unsafe() {
                o.push(("unsafe", J::Bool(true)));
            }
        }
        if let Some(tr) = tcx.trait_of_assoc(def_id) {
            o.push(("trait", J::s(dpath(tcx, tr))));
            if args.len() > 0 {
                if let Some(t) = args[0].as_type() {
                    o.push(("self", J::s(tys(t))));
                }
            }
        } else if let Some(imp) = tcx.impl_of_assoc(def_id) {
            let st = tcx.type_of(imp).instantiate_identity().skip_norm_wip();
            o.push(("impl_self", J::s(tys(st))));
        }
        // try to resolve to the concrete instance
        let env = TypingEnv::post_analysis(tcx, owner);
        if let Ok(Some(inst)) = Instance::try_resolve(tcx, env, def_id, args) {
            let rd = inst.def_id();
            if rd != def_id {
                o.push(("res", J::s(dpath(tcx, rd))));
                o.push(("rga", J::Arr(inst.args.iter().map(|a| J::s(gas(a))).collect())));
            }
            let kind = match inst.def {
                ty::InstanceKind::Item(_) => "item",
                ty::InstanceKind::Virtual(..) => "virtual",
                ty::InstanceKind::Intrinsic(_) => "intrinsic",
                ty::InstanceKind::ClosureOnceShim { .. } => "closure_once",
                ty::InstanceKind::FnPtrShim(..) => "fnptr_shim",
                ty::InstanceKind::DropGlue(..) => "drop_glue",
                ty::InstanceKind::CloneShim(..) => "clone_shim",
                _ => "other",
            };
            o.push(("ik", J::s(kind)));
        }
        J::Obj(o)
    }

    fn operand(&self, owner: DefId, body: &Body<'tcx>, op: &Operand<'tcx>) -> J {
        match op {
            Operand::Copy(p) => J::Arr(vec![J::s("c"), self.place(body, p)]),
            Operand::Move(p) => J::Arr(vec![J::s("m"), self.place(body, p)]),
            Operand::Constant(c) => {
                let t = c.const_.ty();
                match t.kind() {
                    ty::FnDef(d, a) => J::Arr(vec![J::s("fn"), self.fn_ref(owner, *d, a)]),
                    _ => J::Arr(vec![
                        J::s("k"),
                        J::s(fix(with_crate_prefix!(with_no_trimmed_paths!(format!("{}", c.const_))))),
                        J::s(tys(t)),
                    ]),
                }
            }
            #[allow(unreachable_patterns)]
            other => J::Arr(vec![J::s("o"), J::s(format!("{:?}", other))]),
        }
    }

    fn rvalue(&self, owner: DefId, body: &Body<'tcx>, rv: &Rvalue<'tcx>) -> J {
        let tcx = self.tcx;
        match rv {
            Rvalue::Use(op, ..) => J::Arr(vec![J::s("use"), self.operand(owner, body, op)]),
            Rvalue::Repeat(op, n) => J::Arr(vec![
                J::s("repeat"),
                self.operand(owner, body, op),
                J::s(fix(with_crate_prefix!(with_no_trimmed_paths!(n.to_string())))),
            ]),
            Rvalue::Ref(_, bk, p) => {
                let m = matches!(bk, mir::BorrowKind::Mut { .. });
                J::Arr(vec![J::s("ref"), J::Bool(m), self.place(body, p)])
            }
            Rvalue::RawPtr(k, p) => J::Arr(vec![
                J::s("raw"),
                J::s(format!("{:?}", k)),
                self.place(body, p),
            ]),
            Rvalue::Cast(k, op, t) => J::Arr(vec![
                J::s("cast"),
                J::s(format!("{:?}", k)),
                self.operand(owner, body, op),
                J::s(tys(*t)),
                J::s(tys(op.ty(&body.local_decls, tcx))),
            ]),
            Rvalue::BinaryOp(op, ab) => {
                let (a, b) = &**ab;
                J::Arr(vec![
                    J::s("bin"),
                    J::s(format!("{:?}", op)),
                    self.operand(owner, body, a),
                    self.operand(owner, body, b),
                    J::s(tys(a.ty(&body.local_decls, tcx))),
                ])
            }
            Rvalue::UnaryOp(op, a) => J::Arr(vec![
                J::s("un"),
                J::s(format!("{:?}", op)),
                self.operand(owner, body, a),
                J::s(tys(a.ty(&body.local_decls, tcx))),
            ]),
            Rvalue::Discriminant(p) => J::Arr(vec![
                J::s("discr"),
                self.place(body, p),
                J::s(tys(self.place_ty(body, p))),
            ]),
            Rvalue::Aggregate(k, ops) => {
                let kind = match &**k {
                    mir::AggregateKind::Array(_) => J::Arr(vec![J::s("array")]),
                    mir::AggregateKind::Tuple => J::Arr(vec![J::s("tuple")]),
                    mir::AggregateKind::Adt(d, vi, _, _, _) => {
                        let adt = tcx.adt_def(*d);
                        J::Arr(vec![
                            J::s("adt"),
                            J::s(dpath(tcx, *d)),
                            J::n(vi.as_usize()),
                            J::s(adt.variant(*vi).name.to_string()),
                        ])
                    }
                    mir::AggregateKind::Closure(d, _) => J::Arr(vec![J::s("closure"), J::s(dpath(tcx, *d))]),
                    mir::AggregateKind::Coroutine(d, _) => J::Arr(vec![J::s("coroutine"), J::s(dpath(tcx, *d))]),
                    mir::AggregateKind::CoroutineClosure(d, _) => {
                        J::Arr(vec![J::s("coroutine_closure"), J::s(dpath(tcx, *d))])
                    }
                    mir::AggregateKind::RawPtr(..) => J::Arr(vec![J::s("rawptr")]),
                };
                J::Arr(vec![
                    J::s("agg"),
                    kind,
                    J::Arr(ops.iter().map(|o| self.operand(owner, body, o)).collect()),
                ])
            }
            Rvalue::CopyForDeref(p) => J::Arr(vec![J::s("use"), J::Arr(vec![J::s("c"), self.place(body, p)])]),
            other => J::Arr(vec![J::s("other"), J::s(format!("{:?}", other))]),
        }
    }

    fn body(&self, owner: DefId, body: &Body<'tcx>) -> J {
        let tcx = self.tcx;
        let mut locals = vec![];
        for (_, d) in body.local_decls.iter_enumerated() {
            locals.push(J::s(tys(d.ty)));
        }
        let mut dbg = vec![];
        for v in body.var_debug_info.iter() {
            if let mir::VarDebugInfoContents::Place(p) = &v.value {
                dbg.push(J::Arr(vec![J::s(v.name.to_string()), self.place(body, p)]));
            }
        }
        let mut blocks = vec![];
        for (_, bb) in body.basic_blocks.iter_enumerated() {
            let mut stmts = vec![];
            for st in bb.statements.iter() {
                let sp = st.source_info.span;
                match &st.kind {
                    StatementKind::Assign(b) => {
                        let (p, rv) = &**b;
                        stmts.push(J::Arr(vec![
                            J::s("a"),
                            self.place(body, p),
                            self.rvalue(owner, body, rv),
                            self.line(sp),
                            self.expn(sp),
                        ]));
                    }
                    StatementKind::SetDiscriminant { place, variant_index } => {
                        stmts.push(J::Arr(vec![
                            J::s("setdiscr"),
                            self.place(body, place),
                            J::n(variant_index.as_usize()),
                            self.line(sp),
                        ]));
                    }
                    StatementKind::Intrinsic(i) => {
                        stmts.push(J::Arr(vec![J::s("intrinsic"), J::s(format!("{:?}", i)), self.line(sp)]));
                    }
                    _ => {}
                }
            }
            let term = bb.terminator();
            let sp = term.source_info.span;
            let mut t: Vec<(&'static str, J)> = vec![];
            match &term.kind {
                TerminatorKind::Goto { target } => {
                    t.push(("k", J::s("goto")));
                    t.push(("t", J::n(target.as_usize())));
                }
                TerminatorKind::SwitchInt { discr, targets } => {
                    t.push(("k", J::s("switch")));
                    t.push(("d", self.operand(owner, body, discr)));
                    t.push(("dty", J::s(tys(discr.ty(&body.local_decls, tcx)))));
                    let mut vs = vec![];
                    for (v, bbx) in targets.iter() {
                        vs.push(J::Arr(vec![J::s(v.to_string()), J::n(bbx.as_usize())]));
                    }
                    t.push(("ts", J::Arr(vs)));
                    t.push(("else", J::n(targets.otherwise().as_usize())));
                }
                TerminatorKind::Return => t.push(("k", J::s("return"))),
                TerminatorKind::Unreachable => t.push(("k", J::s("unreachable"))),
                TerminatorKind::UnwindResume => t.push(("k", J::s("resume"))),
                TerminatorKind::UnwindTerminate(_) => t.push(("k", J::s("terminate"))),
                TerminatorKind::Drop { place, target, unwind, .. } => {
                    t.push(("k", J::s("drop")));
                    t.push(("p", self.place(body, place)));
                    t.push(("pty", J::s(tys(self.place_ty(body, place)))));
                    t.push(("t", J::n(target.as_usize())));
                    if let mir::UnwindAction::Cleanup(u) = unwind {
                        t.push(("u", J::n(u.as_usize())));
                    }
                }
                TerminatorKind::Call { func, args, destination, target, unwind, .. } => {
                    t.push(("k", J::s("call")));
                    match func.const_fn_def() {
                        Some((d, a)) => t.push(("f", self.fn_ref(owner, d, a))),
                        None => {
                            t.push(("fi", self.operand(owner, body, func)));
                            t.push(("fty", J::s(tys(func.ty(&body.local_decls, tcx)))));
                        }
                    }
                    t.push(("args", J::Arr(args.iter().map(|a| self.operand(owner, body, &a.node)).collect())));
                    t.push(("aty", J::Arr(args.iter().map(|a| J::s(tys(a.node.ty(&body.local_decls, tcx)))).collect())));
                    t.push(("dest", self.place(body, destination)));
                    t.push(("rt", J::s(tys(self.place_ty(body, destination)))));
                    if let Some(tg) = target {
                        t.push(("t", J::n(tg.as_usize())));
                    }
                    if let mir::UnwindAction::Cleanup(u) = unwind {
                        t.push(("u", J::n(u.as_usize())));
                    }
                }
                TerminatorKind::TailCall { func, args, .. } => {
                    t.push(("k", J::s("tailcall")));
                    if let Some((d, a)) = func.const_fn_def() {
                        t.push(("f", self.fn_ref(owner, d, a)));
                    }
                    t.push(("args", J::Arr(args.iter().map(|a| self.operand(owner, body, &a.node)).collect())));
                }
                TerminatorKind::Assert { cond, expected, msg, target, unwind } => {
                    t.push(("k", J::s("assert")));
                    t.push(("cond", self.operand(owner, body, cond)));
                    t.push(("exp", J::Bool(*expected)));
                    let m = format!("{:?}", msg);
                    let m: String = m.chars().take(60).collect();
                    t.push(("msg", J::s(m)));
                    t.push(("t", J::n(target.as_usize())));
                    if let mir::UnwindAction::Cleanup(u) = unwind {
                        t.push(("u", J::n(u.as_usize())));
                    }
                }
                TerminatorKind::Yield { value, resume, drop, .. } => {
                    t.push(("k", J::s("yield")));
                    t.push(("v", self.operand(owner, body, value)));
                    t.push(("t", J::n(resume.as_usize())));
                    if let Some(d) = drop {
                        t.push(("dropbb", J::n(d.as_usize())));
                    }
                }
                TerminatorKind::CoroutineDrop => t.push(("k", J::s("coroutine_drop"))),
                TerminatorKind::FalseEdge { real_target, .. } => {
                    t.push(("k", J::s("goto")));
                    t.push(("t", J::n(real_target.as_usize())));
                }
                TerminatorKind::FalseUnwind { real_target, .. } => {
                    t.push(("k", J::s("goto")));
                    t.push(("t", J::n(real_target.as_usize())));
                }
                TerminatorKind::InlineAsm { .. } => t.push(("k", J::s("asm"))),
            }
            t.push(("line", self.line(sp)));
            t.push(("sp", self.span_j(sp)));
            let e = self.expn(sp);
            if !matches!(e, J::Null) {
                t.push(("x", e));
            }
            blocks.push(J::Obj(vec![
                ("s", J::Arr(stmts)),
                ("t", J::Obj(t)),
                ("cl", J::Bool(bb.is_cleanup)),
            ]));
        }
        J::Obj(vec![
            ("argc", J::n(body.arg_count)),
            ("locals", J::Arr(locals)),
            ("dbg", J::Arr(dbg)),
            ("blocks", J::Arr(blocks)),
        ])
    }

    fn vis(&self, v: ty::Visibility<DefId>) -> J {
        match v {
            ty::Visibility::Public => J::s("pub"),
            ty::Visibility::Restricted(d) => J::s(format!("in:{}", dpath(self.tcx, d))),
        }
    }
}

struct UnsafeBlocks<'a, 'tcx> {
    cx: &'a Cx<'tcx>,
    out: Vec<J>,
}

impl<'a, 'tcx> hir::intravisit::Visitor<'tcx> for UnsafeBlocks<'a, 'tcx> {
    type NestedFilter = rustc_middle::hir::nested_filter::OnlyBodies;
    fn maybe_tcx(&mut self) -> Self::MaybeTyCtxt {
        self.cx.tcx
    }
    fn visit_block(&mut self, b: &'tcx hir::Block<'tcx>) {
        if let hir::BlockCheckMode::UnsafeBlock(hir::UnsafeSource::UserProvided) = b.rules {
            let (f, l, c, el, ec) = self.cx.loc(b.span);
            self.out.push(J::Arr(vec![J::s(f), J::n(l), J::n(c), J::n(el), J::n(ec)]));
        }
        hir::intravisit::walk_block(self, b);
    }
}

fn dump(tcx: TyCtxt<'_>) {
    let out_dir = match std::env::var("ARROWFACTS_OUT") {
        Ok(d) => d,
        Err(_) => return,
    };
    let krate = tcx.crate_name(rustc_hir::def_id::LOCAL_CRATE).to_string();
    if krate == "build_script_build" {
        return;
    }
    KRATE.with(|k| *k.borrow_mut() = krate.clone());
    let cx = Cx { tcx };
    let mut adts = vec![];
    let mut impls = vec![];
    let mut fns = vec![];
    let mut consts = vec![];
    let eff = tcx.effective_visibilities(());

    // items, plus closures / coroutines (body owners that are not items)
    let mut all_defs: Vec<LocalDefId> = tcx.hir_crate_items(()).definitions().collect();
    {
        let seen: std::collections::HashSet<LocalDefId> = all_defs.iter().copied().collect();
        for bo in tcx.hir_body_owners() {
            if !seen.contains(&bo) && matches!(tcx.def_kind(bo.to_def_id()), DefKind::Closure) {
                all_defs.push(bo);
            }
        }
    }
    for ldid in all_defs {
        let did = ldid.to_def_id();
        let dk = tcx.def_kind(did);
        match dk {
            DefKind::Struct | DefKind::Enum | DefKind::Union => {
                let adt = tcx.adt_def(did);
                let env = TypingEnv::post_analysis(tcx, did);
                let mut variants = vec![];
                let discrs: Vec<String> = if adt.is_enum() {
                    adt.discriminants(tcx).map(|(_, d)| d.val.to_string()).collect()
                } else {
                    vec![]
                };
                for (vi, v) in adt.variants().iter_enumerated() {
                    let mut fields = vec![];
                    for f in v.fields.iter() {
                        let fty = tcx.type_of(f.did).instantiate_identity().skip_norm_wip();
                        fields.push(J::Obj(vec![
                            ("name", J::s(f.name.to_string())),
                            ("ty", J::s(tys(fty))),
                            ("vis", cx.vis(f.vis)),
                            ("needs_drop", J::Bool(fty.needs_drop(tcx, env))),
                        ]));
                    }
                    variants.push(J::Obj(vec![
                        ("name", J::s(v.name.to_string())),
                        ("idx", J::n(vi.as_usize())),
                        ("discr", J::opt_s(discrs.get(vi.as_usize()).cloned())),
                        ("fields", J::Arr(fields)),
                    ]));
                }
                let (f, l, _, _, _) = cx.loc(tcx.def_span(did));
                adts.push(J::Obj(vec![
                    ("path", J::s(dpath(tcx, did))),
                    ("kind", J::s(format!("{:?}", dk))),
                    ("vis", cx.vis(tcx.visibility(did))),
                    ("reachable", J::Bool(eff.is_reachable(ldid))),
                    ("file", J::s(f)),
                    ("line", J::n(l)),
                    ("variants", J::Arr(variants)),
                ]));
            }
            DefKind::Impl { .. } => {
                let st = tcx.type_of(did).instantiate_identity().skip_norm_wip();
                let tr = tcx.impl_opt_trait_ref(did).map(|t| {
                    let t = t.instantiate_identity().skip_norm_wip();
                    (dpath(tcx, t.def_id), fix(with_crate_prefix!(with_no_trimmed_paths!(t.to_string()))))
                });
                let items: Vec<J> = tcx
                    .associated_item_def_ids(did)
                    .iter()
                    .map(|d| J::s(dpath(tcx, *d)))
                    .collect();
                let preds: Vec<J> = tcx
                    .predicates_of(did)
                    .predicates
                    .iter()
                    .map(|(p, _)| J::s(fix(with_crate_prefix!(with_no_trimmed_paths!(p.to_string())))))
                    .collect();
                let (f, l, _, _, _) = cx.loc(tcx.def_span(did));
                let mut o = vec![
                    ("self_ty", J::s(tys(st))),
                    ("file", J::s(f)),
                    ("line", J::n(l)),
                    ("items", J::Arr(items)),
                    ("preds", J::Arr(preds)),
                ];
                match tr {
                    Some((p, full)) => {
                        o.push(("trait", J::s(p)));
                        o.push(("trait_ref", J::s(full)));
                        let h = tcx.impl_trait_header(did);
                        o.push(("unsafe", J::Bool(h.safety.is_unsafe())));
                        o.push(("polarity", J::s(format!("{:?}", h.polarity))));
                    }
                    None => {}
                }
                impls.push(J::Obj(o));
            }
            DefKind::Fn | DefKind::AssocFn | DefKind::Closure => {
                let mut o: Vec<(&'static str, J)> = vec![];
                o.push(("id", J::s(dpath(tcx, did))));
                o.push(("kind", J::s(format!("{:?}", dk))));
                let (f, l, _, el, _) = cx.loc(tcx.def_span(did));
                o.push(("file", J::s(f)));
                o.push(("line", J::n(l)));
                o.push(("end_line", J::n(el)));
                if matches!(dk, DefKind::Fn | DefKind::AssocFn) {
                    let sig = tcx.fn_sig(did).instantiate_identity().skip_norm_wip().skip_binder();
                    o.push(("unsafe", J::Bool(sig.safety().is_unsafe())));
                    o.push(("inputs", J::Arr(sig.inputs().iter().map(|t| J::s(tys(*t))).collect())));
                    o.push(("output", J::s(tys(sig.output()))));
                    o.push(("vis", cx.vis(tcx.visibility(did))));
                    o.push(("reachable", J::Bool(eff.is_reachable(ldid))));
                    let preds: Vec<J> = tcx
                        .predicates_of(did)
                        .predicates
                        .iter()
                        .map(|(p, _)| J::s(fix(with_crate_prefix!(with_no_trimmed_paths!(p.to_string())))))
                        .collect();
                    o.push(("preds", J::Arr(preds)));
                    if tcx.asyncness(did).is_async() {
                        o.push(("async", J::Bool(true)));
                    }
                }
                if let DefKind::AssocFn = dk {
                    if let Some(imp) = tcx.impl_of_assoc(did) {
                        let st = tcx.type_of(imp).instantiate_identity().skip_norm_wip();
                        o.push(("impl_self", J::s(tys(st))));
                        if let Some(tr) = tcx.impl_opt_trait_ref(imp) {
                            o.push(("impl_trait", J::s(dpath(tcx, tr.skip_binder().def_id))));
                        }
                    } else if let Some(tr) = tcx.trait_of_assoc(did) {
                        o.push(("in_trait", J::s(dpath(tcx, tr))));
                    }
                }
                if let DefKind::Closure = dk {
                    o.push(("parent", J::s(dpath(tcx, tcx.typeck_root_def_id(did)))));
                    if tcx.is_coroutine(did) {
                        o.push(("coroutine", J::Bool(true)));
                    }
                }
                if tcx.is_mir_available(did) && tcx.hir_maybe_body_owned_by(ldid).is_some() {
                    let body = tcx.optimized_mir(did);
                    let sp = body.span;
                    o.push(("body_span", cx.span_j(sp)));
                    o.push(("mir", cx.body(did, body)));
                    let proms = tcx.promoted_mir(did);
                    if !proms.is_empty() {
                        o.push(("promoted", J::Arr(proms.iter().map(|pb| cx.body(did, pb)).collect())));
                    }
                }
                fns.push(J::Obj(o));
            }
            DefKind::Const { .. } | DefKind::AssocConst { .. } | DefKind::Static { .. } => {
                let t = tcx.type_of(did).instantiate_identity().skip_norm_wip();
                let mut o = vec![
                    ("id", J::s(dpath(tcx, did))),
                    ("kind", J::s(format!("{:?}", dk))),
                    ("ty", J::s(tys(t))),
                ];
                // literal initialiser text for simple integer constants
                if let Some(b) = tcx.hir_maybe_body_owned_by(ldid) {
                    let sm = tcx.sess.source_map();
                    if let Ok(snip) = sm.span_to_snippet(b.value.span) {
                        if snip.len() <= 80 {
                            o.push(("init", J::s(snip)));
                        }
                    }
                }
                consts.push(J::Obj(o));
            }
            _ => {}
        }
    }

    let mut ub = UnsafeBlocks { cx: &cx, out: vec![] };
    tcx.hir_visit_all_item_likes_in_crate(&mut ub);

    let cfgs: Vec<J> = tcx
        .sess
        .config
        .iter()
        .filter(|(k, _)| k.as_str() == "feature")
        .filter_map(|(_, v)| v.map(|v| J::s(v.to_string())))
        .collect();
    let cwd = std::env::current_dir().map(|p| p.display().to_string()).unwrap_or_default();
    let root = J::Obj(vec![
        ("crate", J::s(krate.clone())),
        ("cwd", J::s(cwd)),
        ("features", J::Arr(cfgs)),
        ("crate_types", J::s(format!("{:?}", tcx.crate_types()))),
        ("adts", J::Arr(adts)),
        ("impls", J::Arr(impls)),
        ("fns", J::Arr(fns)),
        ("consts", J::Arr(consts)),
        ("unsafe_blocks", J::Arr(ub.out)),
    ]);
    let mut s = String::new();
    root.write(&mut s);
    let id = tcx.stable_crate_id(rustc_hir::def_id::LOCAL_CRATE).as_u64();
    let tmp = format!("{}/.{}-{:016x}.tmp", out_dir, krate, id);
    let fin = format!("{}/{}-{:016x}.json", out_dir, krate, id);
    std::fs::write(&tmp, s).expect("write facts");
    std::fs::rename(&tmp, &fin).expect("rename facts");
    let _ = LocalDefId::to_def_id;
}
