use arrow_array::cast::AsArray;
use arrow_array::{Array, BooleanArray, Scalar, StringViewArray};
use arrow_select::zip::zip;

/// zip(mask, truthy, falsy) must return the falsy value unchanged wherever the mask is false
#[test]
fn inline_falsy_scalar_sliced_from_a_larger_array() {
    let truthy = Scalar::new(StringViewArray::from(vec!["a truthy string longer than 12 bytes"]));
    // the falsy scalar is an 11-byte (inline) value, but its array carries a data buffer (from the other row)
    let src = StringViewArray::from(vec!["some other long string, more than 12", "123456789ab"]);
    let falsy = Scalar::new(src.slice(1, 1));
    let mask = BooleanArray::from(vec![true, false, true, false]);
    let out = zip(&mask, &truthy, &falsy).unwrap();
    out.to_data().validate_full().unwrap();
    let got: Vec<_> = out.as_string_view().iter().map(|x| x.unwrap().to_string()).collect();
    assert_eq!(
        got,
        vec!["a truthy string longer than 12 bytes", "123456789ab", "a truthy string longer than 12 bytes", "123456789ab"]
    );
}
