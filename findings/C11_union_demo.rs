use arrow_array::{Array, ArrayRef, Int32Array, StringArray, UnionArray};
use arrow_buffer::ScalarBuffer;
use arrow_row::{RowConverter, SortField};
use arrow_schema::{DataType, Field, SortOptions, UnionFields, UnionMode};
use std::sync::Arc;

fn sparse_union(type_ids: Vec<i8>, ints: Vec<Option<i32>>, strs: Vec<Option<&str>>, ids: [i8; 2]) -> (UnionArray, DataType) {
    let fields = UnionFields::try_new(
        ids.to_vec(),
        vec![Field::new("i", DataType::Int32, true), Field::new("s", DataType::Utf8, true)],
    )
    .unwrap();
    let dt = DataType::Union(fields.clone(), UnionMode::Sparse);
    let u = UnionArray::try_new(
        fields,
        ScalarBuffer::from(type_ids),
        None,
        vec![Arc::new(Int32Array::from(ints)) as ArrayRef, Arc::new(StringArray::from(strs)) as ArrayRef],
    )
    .unwrap();
    (u, dt)
}

/// descending: two values of the same union member must sort in reverse order
#[test]
fn union_descending_orders_same_type_values_descending() {
    let (u, dt) = sparse_union(vec![0, 0], vec![Some(5), Some(20)], vec![None, None], [0, 1]);
    let opts = SortOptions { descending: true, nulls_first: false };
    let conv = RowConverter::new(vec![SortField::new_with_options(dt, opts)]).unwrap();
    let rows = conv.convert_columns(&[Arc::new(u) as ArrayRef]).unwrap();
    // descending: 20 sorts before 5, so row(20) < row(5)
    assert!(rows.row(1) < rows.row(0), "descending union: 5 must sort after 20");
}

/// dense union whose type ids are not 0..n: decoding must not panic
#[test]
fn dense_union_with_sparse_type_ids_round_trips() {
    let fields = UnionFields::try_new(
        vec![70, 85],
        vec![Field::new("i", DataType::Int32, true), Field::new("s", DataType::Utf8, true)],
    )
    .unwrap();
    let dt = DataType::Union(fields.clone(), UnionMode::Dense);
    let u = UnionArray::try_new(
        fields,
        ScalarBuffer::from(vec![70i8, 85, 70]),
        Some(ScalarBuffer::from(vec![0i32, 0, 1])),
        vec![Arc::new(Int32Array::from(vec![1, 2])) as ArrayRef, Arc::new(StringArray::from(vec!["a"])) as ArrayRef],
    )
    .unwrap();
    let conv = RowConverter::new(vec![SortField::new(dt)]).unwrap();
    let rows = conv.convert_columns(&[Arc::new(u.clone()) as ArrayRef]).unwrap();
    let back = conv.convert_rows(&rows).unwrap();
    assert_eq!(back[0].to_data(), u.to_data());
}

#[test]
fn union_all_options_round_trip_and_order() {
    for mode_dense in [false, true] {
        for descending in [false, true] {
            for nulls_first in [false, true] {
                let fields = UnionFields::try_new(
                    vec![3, 9],
                    vec![Field::new("i", DataType::Int32, true), Field::new("s", DataType::Utf8, true)],
                )
                .unwrap();
                let type_ids = vec![3i8, 9, 3, 9, 3, 9, 3];
                let (u, dt) = if mode_dense {
                    let ints = Int32Array::from(vec![Some(5), Some(-7), None, Some(5)]);
                    let strs = StringArray::from(vec![Some("b"), Some(""), Some("a\0z")]);
                    (
                        UnionArray::try_new(
                            fields.clone(),
                            ScalarBuffer::from(type_ids.clone()),
                            Some(ScalarBuffer::from(vec![0i32, 0, 1, 1, 2, 2, 3])),
                            vec![Arc::new(ints) as ArrayRef, Arc::new(strs) as ArrayRef],
                        )
                        .unwrap(),
                        DataType::Union(fields, UnionMode::Dense),
                    )
                } else {
                    let ints = Int32Array::from(vec![Some(5), None, Some(-7), None, None, None, Some(5)]);
                    let strs = StringArray::from(vec![None, Some("b"), None, Some(""), None, Some("a\0z"), None]);
                    (
                        UnionArray::try_new(
                            fields.clone(),
                            ScalarBuffer::from(type_ids.clone()),
                            None,
                            vec![Arc::new(ints) as ArrayRef, Arc::new(strs) as ArrayRef],
                        )
                        .unwrap(),
                        DataType::Union(fields, UnionMode::Sparse),
                    )
                };
                let opts = SortOptions { descending, nulls_first };
                let tail = Int32Array::from(vec![1, 2, 3, 4, 5, 6, 7]);
                let conv = RowConverter::new(vec![
                    SortField::new_with_options(dt, opts),
                    SortField::new(DataType::Int32),
                ])
                .unwrap();
                let cols = [Arc::new(u.clone()) as ArrayRef, Arc::new(tail) as ArrayRef];
                let rows = conv.convert_columns(&cols).unwrap();
                let back = conv.convert_rows(&rows).unwrap();
                assert_eq!(back[0].to_data(), u.to_data(), "dense={mode_dense} {opts:?}");
                assert_eq!(back[1].as_ref(), cols[1].as_ref());
                // values 5 (row 0) and -7 (row 2 dense: ints[1]) of member 3
                let (a, b) = (rows.row(0), rows.row(2));
                if mode_dense {
                    // row0 = 5, row2 = -7
                    assert_eq!(a > b, !descending, "dense {opts:?}");
                }
                // different members: type id 3 < 9 ascending
                assert_eq!(rows.row(0) < rows.row(1), !descending);
            }
        }
    }
}
