use arrow_arith::aggregate::{sum_array, sum_array_checked};
use arrow_array::types::{Int32Type, Int64Type};
use arrow_array::{Array, Int64Array, RunArray};

fn ree(values: &[i64]) -> RunArray<Int32Type> {
    // run-end encode
    let mut run_ends = vec![];
    let mut vals = vec![];
    for (i, v) in values.iter().enumerate() {
        if i == 0 || values[i - 1] != *v {
            vals.push(*v);
            run_ends.push(0);
        }
        *run_ends.last_mut().unwrap() = (i + 1) as i32;
    }
    RunArray::<Int32Type>::try_new(&run_ends.into(), &Int64Array::from(vals)).unwrap()
}

#[test]
fn sum_of_sliced_run_array_equals_sum_of_the_values() {
    let values = [0i64, 0, 10, 20, 20, 30, 30, 30];
    let arr = ree(&values);
    for start in 0..values.len() {
        for len in 0..=(values.len() - start) {
            let sliced = arr.slice(start, len);
            let want: i64 = values[start..start + len].iter().sum();
            let typed = sliced.downcast::<Int64Array>().unwrap();

            let got = sum_array::<Int64Type, _>(typed);
            let got_checked = sum_array_checked::<Int64Type, _>(typed).unwrap();
            let want = if len == 0 { None } else { Some(want) };
            assert_eq!(got, want, "sum_array of slice({start},{len})");
            assert_eq!(got_checked, want, "sum_array_checked of slice({start},{len})");
        }
    }
}
