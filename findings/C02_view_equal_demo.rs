use arrow_array::{Array, ArrayRef, ListArray, StringViewArray};
use arrow_buffer::OffsetBuffer;
use arrow_schema::{DataType, Field};
use std::sync::Arc;

fn list_of(child: StringViewArray, offsets: Vec<i32>) -> ListArray {
    ListArray::new(
        Arc::new(Field::new_list_field(DataType::Utf8View, true)),
        OffsetBuffer::new(offsets.into()),
        Arc::new(child) as ArrayRef,
        None,
    )
}

/// two lists that denote different values must not compare equal
#[test]
fn different_values_behind_a_nonzero_child_start() {
    // the lhs list covers child slots 1..3; child slot 0 (outside the list) is null
    let lhs = list_of(StringViewArray::from(vec![None, Some("bbb"), Some("ccc")]), vec![1, 3]);
    let rhs = list_of(StringViewArray::from(vec![Some("XXX"), Some("ccc")]), vec![0, 2]);
    // [["bbb", "ccc"]] vs [["XXX", "ccc"]]
    assert_ne!(lhs, rhs);
}

/// two lists that denote the same values must compare equal whatever lies under nulls
#[test]
fn same_values_with_nulls_behind_a_nonzero_child_start() {
    // lhs child: slot 0 is an unrelated valid value, slot 2 is null
    let lhs = list_of(StringViewArray::from(vec![Some("unrelated"), Some("bbb"), None]), vec![1, 3]);
    let rhs = list_of(StringViewArray::from(vec![Some("bbb"), None]), vec![0, 2]);
    // a null slot may hold any bytes: give the rhs null a different payload by building it from a valid array
    assert_eq!(lhs, rhs);
    // same, but the payload under the null differs
    let child = StringViewArray::from(vec![Some("bbb"), Some("payload")]);
    let child = StringViewArray::new(child.views().clone(), child.data_buffers().to_vec(), Some(vec![true, false].into()));
    let rhs2 = list_of(child, vec![0, 2]);
    assert_eq!(lhs, rhs2);
}
