use arrow_array::{ArrayRef, Int64Array, RecordBatch, StringArray};
use arrow_avro::reader::ReaderBuilder;
use arrow_avro::schema::{AvroSchema, FingerprintStrategy, SchemaStore, SCHEMA_METADATA_KEY};
use arrow_avro::writer::{format::AvroSoeFormat, WriterBuilder};
use arrow_schema::{DataType, Field, Schema};
use std::collections::HashMap;
use std::sync::Arc;

#[test]
fn single_object_record_split_inside_body() {
    let mut store = SchemaStore::new();
    let avro_schema = AvroSchema::new(
        r#"{"type":"record","name":"User","fields":[{"name":"id","type":"long"},{"name":"name","type":"string"}]}"#.to_string(),
    );
    store.register(avro_schema.clone()).unwrap();
    let mut md = HashMap::new();
    md.insert(SCHEMA_METADATA_KEY.to_string(), avro_schema.json_string.clone());
    let arrow = Schema::new_with_metadata(
        vec![Field::new("id", DataType::Int64, false), Field::new("name", DataType::Utf8, false)],
        md,
    );
    let batch = RecordBatch::try_new(
        Arc::new(arrow.clone()),
        vec![
            Arc::new(Int64Array::from(vec![42])) as ArrayRef,
            Arc::new(StringArray::from(vec!["hello world"])) as ArrayRef,
        ],
    )
    .unwrap();
    let mut w = WriterBuilder::new(arrow)
        .with_fingerprint_strategy(FingerprintStrategy::Rabin)
        .build::<_, AvroSoeFormat>(Vec::new())
        .unwrap();
    w.write(&batch).unwrap();
    w.finish().unwrap();
    let frame = w.into_inner();

    // reference: whole frame at once
    let mut dec = ReaderBuilder::new().with_writer_schema_store(store.clone()).build_decoder().unwrap();
    assert_eq!(dec.decode(&frame).unwrap(), frame.len());
    let whole = dec.flush().unwrap().unwrap();

    // every split point: feed a prefix, then the unconsumed rest (a rolling buffer, as the docs describe)
    let mut problems: Vec<String> = vec![];
    println!("frame {:?}", frame);
    for split in 1..frame.len() {
        let mut dec = ReaderBuilder::new().with_writer_schema_store(store.clone()).build_decoder().unwrap();
        let n = match dec.decode(&frame[..split]) { Ok(n) => n, Err(e) => { problems.push(format!("split {split}: first decode error {e}")); continue } };
        let m = match dec.decode(&frame[n..]) { Ok(n) => n, Err(e) => { problems.push(format!("split {split}: second decode error {e}")); continue } };
        if n + m != frame.len() { problems.push(format!("split {split}: consumed {n}+{m} of {}", frame.len())); continue }
        match dec.flush() {
            Err(e) => problems.push(format!("split {split}: flush failed: {e}")),
            Ok(None) => problems.push(format!("split {split}: no batch")),
            Ok(Some(got)) => if got != whole { problems.push(format!("split {split}: different batch {got:?}")) },
        }
    }
    assert!(problems.is_empty(), "{:#?}", problems);
}
