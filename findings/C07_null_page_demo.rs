// a page of a repeated column that holds a non-null value must not be flagged as a null page in the column index
use arrow::array::{Array, ArrayRef, Int32Builder, ListBuilder, RecordBatch};
use arrow::datatypes::{DataType, Field, Schema};
use bytes::Bytes;
use parquet::arrow::ArrowWriter;
use parquet::file::metadata::{PageIndexPolicy, ParquetMetaDataReader};
use parquet::file::properties::{EnabledStatistics, WriterProperties};
use std::sync::Arc;

#[test]
fn page_with_a_value_is_not_a_null_page() {
    // two rows: [null, null] and [5]  -> 2 rows, 3 leaf slots, 2 of them null
    let mut b = ListBuilder::new(Int32Builder::new());
    b.values().append_null();
    b.values().append_null();
    b.append(true);
    b.values().append_value(5);
    b.append(true);
    let list = b.finish();
    let schema = Arc::new(Schema::new(vec![Field::new("l", list.data_type().clone(), true)]));
    let batch = RecordBatch::try_new(schema.clone(), vec![Arc::new(list) as ArrayRef]).unwrap();
    let props = WriterProperties::builder().set_statistics_enabled(EnabledStatistics::Page).build();
    let mut buf = Vec::new();
    let mut w = ArrowWriter::try_new(&mut buf, schema, Some(props)).unwrap();
    w.write(&batch).unwrap();
    w.close().unwrap();
    let md = ParquetMetaDataReader::new()
        .with_page_index_policy(PageIndexPolicy::Required)
        .parse_and_finish(&Bytes::from(buf))
        .unwrap();
    let ci = md.page_index().expect("page index loaded").column_index(0, 0).expect("column index written");
    let _ = DataType::Int32;
    match ci {
        parquet::file::page_index::column_index::ColumnIndexMetaData::INT32(idx) => {
            assert_eq!(idx.num_pages(), 1);
            assert!(!idx.is_null_page(0), "the page holds the value 5 but is flagged as a null page (readers prune it)");
            assert_eq!(idx.min_value(0), Some(&5));
        }
        _ => panic!("unexpected index type"),
    }
}
