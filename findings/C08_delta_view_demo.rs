// F17 demo: DELTA_LENGTH_BYTE_ARRAY / DELTA_BYTE_ARRAY columns read as Utf8View must reject values that are only valid UTF-8 when concatenated
use arrow::array::{Array, AsArray, RecordBatch};
use arrow::datatypes::{DataType, Field, Schema};
use bytes::Bytes;
use parquet::arrow::arrow_reader::{ArrowReaderOptions, ParquetRecordBatchReaderBuilder};
use parquet::basic::Encoding;
use parquet::data_type::{ByteArray, ByteArrayType};
use parquet::file::properties::{EnabledStatistics, WriterProperties};
use parquet::file::writer::SerializedFileWriter;
use parquet::schema::parser::parse_message_type;
use std::sync::Arc;

fn write(values: &[ByteArray], enc: Encoding) -> Bytes {
    let schema = Arc::new(parse_message_type("message schema { REQUIRED BYTE_ARRAY s (UTF8); }").unwrap());
    let props = Arc::new(
        WriterProperties::builder()
            .set_dictionary_enabled(false)
            .set_encoding(enc)
            .set_statistics_enabled(EnabledStatistics::None)
            .build(),
    );
    let mut buf = Vec::new();
    let mut writer = SerializedFileWriter::new(&mut buf, schema, props).unwrap();
    let mut rg = writer.next_row_group().unwrap();
    let mut col = rg.next_column().unwrap().unwrap();
    col.typed::<ByteArrayType>().write_batch(values, None, None).unwrap();
    col.close().unwrap();
    rg.close().unwrap();
    writer.close().unwrap();
    Bytes::from(buf)
}

fn read(data: Bytes, dt: DataType) -> Result<Vec<RecordBatch>, String> {
    let s = Arc::new(Schema::new(vec![Field::new("s", dt, false)]));
    let r = ParquetRecordBatchReaderBuilder::try_new_with_options(data, ArrowReaderOptions::new().with_schema(s))
        .map_err(|e| e.to_string())?
        .build()
        .map_err(|e| e.to_string())?;
    r.collect::<Result<Vec<_>, _>>().map_err(|e| e.to_string())
}

#[test]
fn character_split_across_two_values_is_rejected() {
    for enc in [Encoding::DELTA_LENGTH_BYTE_ARRAY, Encoding::DELTA_BYTE_ARRAY, Encoding::PLAIN] {
        for vals in [
            vec![ByteArray::from(b"a\xC2".to_vec()), ByteArray::from(b"\x80b".to_vec())],
            vec![
                ByteArray::from([b"aaaaaaaaaaaaaaaa".as_ref(), b"\xC2"].concat()),
                ByteArray::from([b"\x80".as_ref(), b"bbbbbbbbbbbbbbbbb"].concat()),
            ],
        ] {
            for dt in [DataType::Utf8View, DataType::Utf8, DataType::LargeUtf8] {
            match read(write(&vals, enc), dt.clone()) {
                Err(_) => {}
                Ok(b) => {
                    let v = b[0].column(0).to_data().validate_full();
                    assert!(v.is_ok(), "{enc:?} as {dt}: reader returned Ok but the string array is invalid: {v:?}");
                }
            }
            }
        }
    }
}

#[test]
fn valid_multibyte_values_still_decode() {
    let strs = ["", "é", "añb", "日本語のテキストはここにあります", "x", "", "0123456789abcdef\u{1F600}", "ü"];
    let vals: Vec<ByteArray> = strs.iter().map(|s| ByteArray::from(s.as_bytes().to_vec())).collect();
    for enc in [Encoding::DELTA_LENGTH_BYTE_ARRAY, Encoding::DELTA_BYTE_ARRAY, Encoding::PLAIN] {
        let b = read(write(&vals, enc), DataType::Utf8View).unwrap();
        let got: Vec<&str> = b[0].column(0).as_string_view().iter().map(|x| x.unwrap()).collect();
        assert_eq!(got, strs, "{enc:?}");
        let b = read(write(&vals, enc), DataType::Utf8).unwrap();
        let got: Vec<&str> = b[0].column(0).as_string::<i32>().iter().map(|x| x.unwrap()).collect();
        assert_eq!(got, strs, "{enc:?} Utf8");
        let b = read(write(&vals, enc), DataType::LargeUtf8).unwrap();
        let got: Vec<&str> = b[0].column(0).as_string::<i64>().iter().map(|x| x.unwrap()).collect();
        assert_eq!(got, strs, "{enc:?} LargeUtf8");
    }
}
