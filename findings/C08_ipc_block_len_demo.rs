use arrow_array::{ArrayRef, Int32Array, RecordBatch};
use arrow_ipc::reader::FileReader;
use arrow_ipc::writer::FileWriter;
use arrow_schema::{DataType, Field, Schema};
use std::io::Cursor;
use std::sync::Arc;

fn file() -> Vec<u8> {
    let schema = Arc::new(Schema::new(vec![Field::new("a", DataType::Int32, false)]));
    let batch = RecordBatch::try_new(schema.clone(), vec![Arc::new(Int32Array::from(vec![1, 2, 3])) as ArrayRef]).unwrap();
    let mut w = FileWriter::try_new(Vec::new(), &schema).unwrap();
    w.write(&batch).unwrap();
    w.finish().unwrap();
    w.into_inner().unwrap()
}

/// a footer whose record-batch Block carries a negative bodyLength must be reported as an error, not panic
#[test]
fn negative_body_length_in_footer_block() {
    let mut bytes = file();
    let n = bytes.len();
    let footer_len = u32::from_le_bytes(bytes[n - 10..n - 6].try_into().unwrap()) as usize;
    let footer_start = n - 10 - footer_len;
    let (body_off, body_len) = {
        let footer = arrow_ipc::root_as_footer(&bytes[footer_start..n - 10]).unwrap();
        let block = footer.recordBatches().unwrap().get(0);
        // Block is a 24-byte struct { offset: i64, metaDataLength: i32, pad, bodyLength: i64 } stored inline in the footer
        let addr = block as *const _ as usize - bytes.as_ptr() as usize;
        (addr + 16, block.bodyLength())
    };
    assert_eq!(i64::from_le_bytes(bytes[body_off..body_off + 8].try_into().unwrap()), body_len);
    bytes[body_off..body_off + 8].copy_from_slice(&(-1i64).to_le_bytes());
    let res = std::panic::catch_unwind(move || {
        FileReader::try_new(Cursor::new(bytes), None).and_then(|r| r.collect::<Result<Vec<_>, _>>())
    });
    match res {
        Ok(r) => assert!(r.is_err(), "corrupted file was read without error"),
        Err(_) => panic!("reader panicked on a footer Block with bodyLength = -1"),
    }
}
