use arrow_array::{ArrayRef, Int64Array, RecordBatch};
use arrow_avro::compression::CompressionCodec;
use arrow_avro::reader::ReaderBuilder;
use arrow_avro::writer::{format::AvroOcfFormat, WriterBuilder};
use arrow_schema::{DataType, Field, Schema};
use std::io::Cursor;
use std::sync::Arc;

/// a snappy-compressed block shorter than its 4-byte CRC trailer must be an error, not a panic
#[test]
fn snappy_block_shorter_than_crc() {
    let schema = Schema::new(vec![Field::new("id", DataType::Int64, false)]);
    let batch = RecordBatch::try_new(
        Arc::new(schema.clone()),
        vec![Arc::new(Int64Array::from(vec![1, 2, 3])) as ArrayRef],
    )
    .unwrap();
    let mut w = WriterBuilder::new(schema)
        .with_compression(Some(CompressionCodec::Snappy))
        .build::<_, AvroOcfFormat>(Vec::new())
        .unwrap();
    w.write(&batch).unwrap();
    w.finish().unwrap();
    let bytes = w.into_inner();
    let sync: Vec<u8> = bytes[bytes.len() - 16..].to_vec();
    let header_end = bytes.windows(16).position(|w| w == sync.as_slice()).unwrap() + 16;
    // header + one block: 1 record, 2 bytes of "compressed" data, sync marker
    let mut bad = bytes[..header_end].to_vec();
    bad.extend_from_slice(&[2, 4, 0xAA, 0xBB]);
    bad.extend_from_slice(&sync);
    let res = std::panic::catch_unwind(move || {
        ReaderBuilder::new().build(Cursor::new(bad)).and_then(|r| r.collect::<Result<Vec<_>, _>>())
    });
    match res {
        Ok(r) => assert!(r.is_err(), "corrupted block decoded without error"),
        Err(_) => panic!("reader panicked on a 2-byte snappy block"),
    }
}
