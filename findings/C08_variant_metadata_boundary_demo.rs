use parquet_variant::VariantMetadata;

/// metadata that passes full validation must not make the documented panic-free accessors panic
#[test]
fn unsorted_dictionary_offset_inside_a_character() {
    // header: version 1, not sorted, offset_size 1; dictionary_size 2; offsets [0, 1, 3]; bytes "éa" (C3 A9 61)
    // the buffer is valid UTF-8 as a whole, entry 0 = [C3] and entry 1 = [A9, 61] are not
    let bytes = [0x01u8, 2, 0, 1, 3, 0xC3, 0xA9, b'a'];
    let res = std::panic::catch_unwind(|| {
        VariantMetadata::try_new(&bytes).map(|m| m.iter().map(|s| s.to_string()).collect::<Vec<_>>())
    });
    match res {
        Ok(Err(_)) => {}
        Ok(Ok(v)) => panic!("accepted and returned {v:?}"),
        Err(_) => panic!("try_new accepted the metadata (full validation) and iter() then panicked"),
    }
}
