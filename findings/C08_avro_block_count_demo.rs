use arrow_array::{ArrayRef, Int64Array, RecordBatch};
use arrow_avro::reader::ReaderBuilder;
use arrow_avro::writer::AvroWriter;
use arrow_schema::{DataType, Field, Schema};
use std::io::Cursor;
use std::sync::mpsc;
use std::sync::Arc;
use std::time::Duration;

fn ocf(rows: i64) -> Vec<u8> {
    let schema = Schema::new(vec![Field::new("id", DataType::Int64, false)]);
    let batch = RecordBatch::try_new(
        Arc::new(schema.clone()),
        vec![Arc::new(Int64Array::from((0..rows).collect::<Vec<_>>())) as ArrayRef],
    )
    .unwrap();
    let mut w = AvroWriter::new(Vec::new(), schema).unwrap();
    w.write(&batch).unwrap();
    w.finish().unwrap();
    w.into_inner()
}

/// a block whose declared record count is smaller than the records its data holds must end in an error (or in the rows), not in a hang
#[test]
fn understated_block_count_terminates() {
    let mut bytes = ocf(3);
    let sync: Vec<u8> = bytes[bytes.len() - 16..].to_vec();
    let header_end = bytes.windows(16).position(|w| w == sync.as_slice()).unwrap() + 16;
    assert_eq!(bytes[header_end], 6, "zig-zag varint of the record count 3");
    bytes[header_end] = 2; // declare 1 record, the data still holds 3
    let (tx, rx) = mpsc::channel();
    std::thread::spawn(move || {
        let reader = ReaderBuilder::new().build(Cursor::new(bytes));
        let res = reader.map(|r| r.collect::<Result<Vec<_>, _>>().map(|b| b.iter().map(|x| x.num_rows()).sum::<usize>()));
        let _ = tx.send(format!("{res:?}"));
    });
    match rx.recv_timeout(Duration::from_secs(10)) {
        Ok(res) => println!("reader finished: {res}"),
        Err(_) => panic!("reader did not finish within 10 s: it loops forever on a block with an understated record count"),
    }
}
