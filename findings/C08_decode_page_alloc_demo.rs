use bytes::Bytes;
use parquet::basic::{Compression, Type as PhysicalType};
use parquet::column::page::PageReader;
use parquet::file::metadata::ColumnChunkMetaData;
use parquet::file::serialized_reader::SerializedPageReader;
use parquet::schema::types::{ColumnDescriptor, ColumnPath, Type as SchemaType};
use std::alloc::{GlobalAlloc, Layout, System};
use std::sync::Arc;
use std::sync::atomic::{AtomicUsize, Ordering};
struct Max;
static MAXREQ: AtomicUsize = AtomicUsize::new(0);
unsafe impl GlobalAlloc for Max {
    unsafe fn alloc(&self, l: Layout) -> *mut u8 { MAXREQ.fetch_max(l.size(), Ordering::SeqCst); unsafe { System.alloc(l) } }
    unsafe fn alloc_zeroed(&self, l: Layout) -> *mut u8 { MAXREQ.fetch_max(l.size(), Ordering::SeqCst); unsafe { System.alloc_zeroed(l) } }
    unsafe fn dealloc(&self, p: *mut u8, l: Layout) { unsafe { System.dealloc(p, l) } }
    unsafe fn realloc(&self, p: *mut u8, l: Layout, n: usize) -> *mut u8 { MAXREQ.fetch_max(n, Ordering::SeqCst); unsafe { System.realloc(p, l, n) } }
}
#[global_allocator]
static A: Max = Max;

#[test]
fn page_header_with_huge_uncompressed_size() {
    // PageHeader { type: DATA_PAGE, uncompressed_page_size: i32::MAX, compressed_page_size: 4,
    //              data_page_header { num_values 1, PLAIN, RLE, RLE } } followed by 4 payload bytes
    let mut chunk: Vec<u8> = vec![0x15, 0x00, 0x15, 0xFE, 0xFF, 0xFF, 0xFF, 0x0F, 0x15, 0x08, 0x2C, 0x15, 0x02, 0x15, 0x00, 0x15, 0x06, 0x15, 0x06, 0x00, 0x00];
    chunk.extend_from_slice(&[1, 2, 3, 4]);
    let n = chunk.len();
    let t = Arc::new(SchemaType::primitive_type_builder("a", PhysicalType::INT32).build().unwrap());
    let descr = Arc::new(ColumnDescriptor::new(t, 0, 0, ColumnPath::from("a")));
    let meta = ColumnChunkMetaData::builder(descr)
        .set_compression(Compression::SNAPPY)
        .set_num_values(1)
        .set_total_compressed_size(n as i64)
        .set_total_uncompressed_size(n as i64)
        .set_data_page_offset(0)
        .build()
        .unwrap();
    let mut reader = SerializedPageReader::new(Arc::new(Bytes::from(chunk)), &meta, 1, None).unwrap();
    let r = reader.get_next_page();
    assert!(r.is_err(), "{:?}", r.map(|_| ()));
    let m = MAXREQ.load(Ordering::SeqCst);
    assert!(m < 1 << 20, "a {n} byte column chunk requested an allocation of {m} bytes");
}
