// Drop into parquet/tests/ and run with `cargo test --release -p parquet --test <name> -- --nocapture`.
// A BINARY column without the UTF8 annotation holding the bytes FF FE is read with an Arrow schema hint of
// Utf8 / LargeUtf8 / Utf8View / Dictionary(Int32, Utf8) (`ArrowReaderOptions::with_schema`; the embedded
// ARROW:schema metadata of a file goes through the same hint path). In release builds the reader returns Ok
// with arrays that fail validate_full (invalid UTF-8; for the dictionary even a Binary child under a Utf8
// dictionary type); in debug builds ByteArrayReader::consume_batch panics on `build().unwrap()`.
use arrow_array::{Array, ArrayRef, BinaryArray, RecordBatch};
use arrow_schema::{DataType, Field, Schema};
use bytes::Bytes;
use parquet::arrow::ArrowWriter;
use parquet::arrow::arrow_reader::{ArrowReaderOptions, ParquetRecordBatchReaderBuilder};
use std::sync::Arc;
fn file() -> Bytes {
    let bin: ArrayRef = Arc::new(BinaryArray::from(vec![&b"\xff\xfe"[..], &b"ok"[..]]));
    let batch = RecordBatch::try_from_iter(vec![("c", bin)]).unwrap();
    let mut buf = Vec::new();
    let mut w = ArrowWriter::try_new(&mut buf, batch.schema(), None).unwrap();
    w.write(&batch).unwrap();
    w.close().unwrap();
    Bytes::from(buf)
}
fn read_as(t: DataType) {
    let schema = Arc::new(Schema::new(vec![Field::new("c", t.clone(), false)]));
    let opts = ArrowReaderOptions::new().with_schema(schema);
    match ParquetRecordBatchReaderBuilder::try_new_with_options(file(), opts) {
        Err(e) => println!("{t}: builder error: {e}"),
        Ok(b) => match b.build().unwrap().next() {
            Some(Ok(batch)) => {
                let r = batch.column(0).to_data().validate_full();
                assert!(r.is_ok(), "reader returned an invalid {t} array: {r:?}");
            }
            other => println!("{t}: reader: {:?}", other.map(|r| r.map(|_| ()).map_err(|e| e.to_string()))),
        },
    }
}
#[test]
fn as_utf8() { read_as(DataType::Utf8) }
#[test]
fn as_large_utf8() { read_as(DataType::LargeUtf8) }
#[test]
fn as_utf8_view() { read_as(DataType::Utf8View) }
#[test]
fn as_dict_utf8() { read_as(DataType::Dictionary(Box::new(DataType::Int32), Box::new(DataType::Utf8))) }
