use arrow_array::{Array, ArrayRef, Int64Array};
use arrow_row::{RowConverter, SortField};
use arrow_schema::DataType;
use std::sync::Arc;

/// rows rebuilt from (a head slice of) their binary form and then appended to must equal rows converted in one go
#[test]
fn append_after_from_binary_of_a_head_slice() {
    let conv = RowConverter::new(vec![SortField::new(DataType::Int64)]).unwrap();
    let a: ArrayRef = Arc::new(Int64Array::from(vec![Some(1), Some(2), Some(-1), Some(i64::MAX)]));
    let b: ArrayRef = Arc::new(Int64Array::from(vec![None, Some(7)]));
    let rows = conv.convert_columns(&[a.clone()]).unwrap();
    let binary = rows.try_into_binary().unwrap();
    // keep the first two rows only: the values buffer still holds the bytes of rows 2 and 3
    let head = binary.slice(0, 2);
    let mut rebuilt = conv.from_binary(head);
    conv.append(&mut rebuilt, &[b.clone()]).unwrap();

    let a2: ArrayRef = Arc::new(Int64Array::from(vec![Some(1), Some(2)]));
    let mut reference = conv.convert_columns(&[a2]).unwrap();
    conv.append(&mut reference, &[b]).unwrap();

    assert_eq!(rebuilt.num_rows(), reference.num_rows());
    for i in 0..reference.num_rows() {
        assert_eq!(rebuilt.row(i).as_ref(), reference.row(i).as_ref(), "row {i} is not byte-equal");
    }
    let back = conv.convert_rows(&rebuilt).unwrap();
    assert_eq!(back[0].as_ref(), &Int64Array::from(vec![Some(1), Some(2), None, Some(7)]) as &dyn Array);
}
