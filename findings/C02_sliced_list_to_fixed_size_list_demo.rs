use arrow_array::cast::AsArray;
use arrow_array::types::Int32Type;
use arrow_array::{Array, ListArray};
use arrow_cast::cast;
use arrow_schema::{DataType, Field};
use std::sync::Arc;

#[test]
fn sliced_list_to_fixed_size_list() {
    let list = ListArray::from_iter_primitive::<Int32Type, _, _>(vec![
        Some(vec![Some(1), Some(2)]),
        Some(vec![Some(3), Some(4)]),
        Some(vec![Some(5), Some(6)]),
    ]);
    let to = DataType::FixedSizeList(Arc::new(Field::new_list_field(DataType::Int32, true)), 2);
    let sliced = list.slice(1, 2);
    let got = cast(&sliced, &to).unwrap();
    // the same logical column, rebuilt without an offset
    let fresh = ListArray::from_iter_primitive::<Int32Type, _, _>(vec![
        Some(vec![Some(3), Some(4)]),
        Some(vec![Some(5), Some(6)]),
    ]);
    let want = cast(&fresh, &to).unwrap();
    let g = got.as_fixed_size_list().values().as_primitive::<Int32Type>().values().to_vec();
    let w = want.as_fixed_size_list().values().as_primitive::<Int32Type>().values().to_vec();
    assert_eq!(g, w, "cast of a sliced list differs from cast of the equal unsliced list");
}

#[test]
fn sliced_list_with_wrong_sizes_safe() {
    use arrow_cast::{cast_with_options, CastOptions};
    let list = ListArray::from_iter_primitive::<Int32Type, _, _>(vec![
        Some(vec![Some(1), Some(2)]),
        Some(vec![Some(9)]),
        Some(vec![Some(3), Some(4)]),
        None,
        Some(vec![Some(5), Some(6)]),
        Some(vec![]),
        Some(vec![Some(7), Some(8)]),
    ]);
    let to = DataType::FixedSizeList(Arc::new(Field::new_list_field(DataType::Int32, true)), 2);
    let opts = CastOptions { safe: true, ..Default::default() };
    for start in 0..7 {
        for len in 0..=(7 - start) {
            let sliced = list.slice(start, len);
            let got = cast_with_options(&sliced, &to, &opts).unwrap();
            // rebuild the same logical column without an offset
            let rows: Vec<Option<Vec<Option<i32>>>> = (0..sliced.len())
                .map(|i| sliced.is_valid(i).then(|| sliced.value(i).as_primitive::<Int32Type>().iter().collect()))
                .collect();
            let fresh = ListArray::from_iter_primitive::<Int32Type, _, _>(rows);
            let want = cast_with_options(&fresh, &to, &opts).unwrap();
            let (g, w) = (got.as_fixed_size_list(), want.as_fixed_size_list());
            assert_eq!(g.len(), w.len());
            for i in 0..g.len() {
                assert_eq!(g.is_valid(i), w.is_valid(i), "start {start} len {len} row {i}");
                if g.is_valid(i) {
                    assert_eq!(g.value(i).as_ref(), w.value(i).as_ref(), "start {start} len {len} row {i}");
                }
            }
        }
    }
}
